""" C17 workload: a small cluster is driven through every Supvisors state by a real history (staggered boot, USER
synchronization, slow starts, a duplicate kept by the USER conciliation strategy, restart / shutdown with slow stops)
while every public XML-RPC is probed on random instances (Master and not) with valid and invalid parameters. """
import random

from supervisor.states import RUNNING_STATES

from vsim import gen
from vsim.cluster import TICK, Fault, peek, views, status_snapshot, snapshot_diff, vt
from vsim.sim import World, Runaway

BAD_SUPVISORS_STATE, NOT_MANAGED, NOT_APPLICABLE = 101, 102, 104
INCORRECT_PARAMETERS, BAD_NAME = 2, 10

ALWAYS = ['get_api_version', 'get_supvisors_state', 'get_all_instances_state_modes', 'get_instance_state_modes',
          'get_master_identifier', 'get_strategies', 'get_statistics_status', 'get_network_info',
          'get_all_instances_info', 'get_instance_info', 'get_all_local_process_info', 'get_local_process_info',
          'get_all_inner_process_info', 'get_inner_process_info', 'change_log_level', 'enable_host_statistics',
          'enable_process_statistics', 'update_collecting_period']
FROM_DISTRIBUTION = ['get_all_applications_info', 'get_application_info', 'get_application_rules',
                     'get_all_process_info', 'get_process_info', 'get_process_rules', 'get_conflicts', 'restart',
                     'shutdown']
OPERATION_ONLY = ['start_application', 'test_start_application', 'restart_application', 'start_process',
                  'test_start_process', 'start_any_process', 'restart_process', 'update_numprocs', 'enable', 'disable',
                  'restart_sequence']
OPERATION_CONCILIATION = ['stop_application', 'stop_process']
CONCILIATION_ONLY = ['conciliate']
METHODS = ALWAYS + FROM_DISTRIBUTION + OPERATION_ONLY + OPERATION_CONCILIATION + CONCILIATION_ONLY + ['end_sync']
STATES = ['OFF', 'SYNCHRONIZATION', 'ELECTION', 'DISTRIBUTION', 'OPERATION', 'CONCILIATION', 'RESTARTING',
          'SHUTTING_DOWN', 'FINAL']


def gate(method, state, user_sync, master_declared):
    """ True: served; False: BAD_SUPVISORS_STATE expected; 'reject': any rejection accepted; None: no verdict. """
    if method in ALWAYS:
        return True
    if method in FROM_DISTRIBUTION:
        if state == 'FINAL':
            return None
        return state in ('DISTRIBUTION', 'OPERATION', 'CONCILIATION', 'RESTARTING', 'SHUTTING_DOWN')
    if method in OPERATION_ONLY:
        return state == 'OPERATION'
    if method in OPERATION_CONCILIATION:
        return state in ('OPERATION', 'CONCILIATION')
    if method in CONCILIATION_ONLY:
        return state == 'CONCILIATION'
    if method == 'end_sync':
        if state != 'SYNCHRONIZATION':
            return False
        if master_declared:
            return False
        return True if user_sync else 'reject'
    return None


class Run:

    def __init__(self, case, knobs):
        self.case, self.knobs = case, knobs
        self.rng = rng = random.Random(case['seed'])
        specs = gen.gen_topology(rng, 2, 3, 2)
        user_sync = rng.random() < 0.5
        synchro = ['USER'] if user_sync and rng.random() < 0.5 else (['USER', 'LIST'] if user_sync else ['LIST'])
        if rng.random() < 0.3:
            synchro = list(set(synchro + ['TIMEOUT']))
        options = gen.gen_options(rng, specs, synchro=synchro, fence='false')
        options['conciliation_strategy'] = 'USER'
        options['supvisors_failure_strategy'] = 'CONTINUE'
        options.pop('core_identifiers', None)
        model, groups_by_nick = gen.gen_apps(rng, specs, n_apps=(2, 3), n_progs=(1, 3), managed_p=0.75, seq_max=2,
                                             startsecs=(1, 7), stopwaitsecs=(3, 9), autorestart=('false',),
                                             identifiers_p=0.1)
        names = list(model)
        # at least one managed application with a start sequence, and one unmanaged
        if not any(m['managed'] for m in model.values()):
            pass
        for spec in specs:
            spec['groups'] = groups_by_nick[spec['nick']]
        behaviours = {}
        for app_name, app in model.items():
            for prog_name, prog in app['programs'].items():
                for name in gen.process_names(prog_name, prog):
                    kind = rng.choice(['normal', 'normal', 'slow_stop', 'slow_stop', 'stubborn'])
                    lives = [{}] if kind == 'normal' else \
                        [{'term': round(rng.uniform(1.0, 5.0), 2)}] if kind == 'slow_stop' else [{'term': 'ignore'}]
                    behaviours[f'{app_name}:{name}'] = lives
        self.user_sync = 'USER' in synchro
        self.scenario = {'instances': specs, 'options': options, 'model': model, 'rules_xml': gen.rules_xml(model),
                         'sched': gen.gen_sched(rng, specs, None), 'behaviours': behaviours, 'auto_reboot': False}
        self.model = model
        self.procs = gen.model_processes(model)
        self.counters = {}
        self.violations = []
        self.cells = set()
        self.emissions = 0

    def count(self, name, n=1):
        self.counters[name] = self.counters.get(name, 0) + n

    def violate(self, key, msg):
        if len(self.violations) < 12:
            self.violations.append({'key': key, 'msg': msg, 'detail': {'case': self.describe()}})

    def describe(self):
        scn = self.scenario
        return {'instances': [(s['nick'], s['node'], s['port']) for s in scn['instances']], 'options': scn['options'],
                'apps': {a: {'managed': m['managed'], 'programs': list(m['programs'])} for a, m in self.model.items()}}

    def shape(self):
        return '|'.join([str(len(self.scenario['instances'])), self.scenario['options']['synchro_options'],
                         ','.join(sorted({c[0][:4] for c in self.cells})), str(len(self.cells) // 20)])

    # -- parameters ---------------------------------------------------------------------------------
    def params(self, method, invalid):
        """ (args, expected fault code when the call is served, or None) - at most one invalid parameter. """
        rng, w = self.rng, self.world
        managed = [a for a, m in self.model.items() if m['managed']]
        unmanaged = [a for a, m in self.model.items() if not m['managed']]
        apps = list(self.model)
        namespecs = list(self.procs)
        identifiers = list(w.by_identifier)
        nicks = list(w.by_identifier.values())
        strategy = rng.choice(['CONFIG', 'LESS_LOADED', 0, 2, 'LOCAL'])
        bad_strategy = rng.choice(['NOPE', 99, -1, 'config ', True, False, 1.0, ['CONFIG']])
        expected = None

        def app_arg(need_managed):
            nonlocal expected
            if invalid == 'name':
                expected = BAD_NAME
                return rng.choice(['nope', 'app9', ''])
            if invalid == 'unmanaged' and unmanaged and need_managed:
                expected = NOT_MANAGED
                return rng.choice(unmanaged)
            return rng.choice(managed or apps)

        def namespec_arg():
            nonlocal expected
            if invalid == 'name':
                expected = BAD_NAME
                # (a bare application name is the namespec of a process that bears the name of its group: unknown here)
                return rng.choice(['nope:x', rng.choice(apps) + ':nope', 'nope:*', rng.choice(apps),
                                   rng.choice(namespecs).split(':')[1]])
            return rng.choice(namespecs + [rng.choice(apps) + ':*'])

        def strategy_arg():
            nonlocal expected
            if invalid == 'strategy':
                expected = INCORRECT_PARAMETERS
                return bad_strategy
            return strategy

        def identifier_arg():
            nonlocal expected
            if invalid == 'name':
                expected = BAD_NAME
                return rng.choice(['10.9.9.9:1', 'nobody', '*', '#', ''])
            return rng.choice(identifiers + nicks)

        def program_arg():
            nonlocal expected
            if invalid == 'name':
                expected = BAD_NAME
                return 'nope'
            return rng.choice([p for a in self.model.values() for p in a['programs']])
        if method in ('start_application', 'restart_application'):
            return (strategy_arg(), app_arg(True), False), expected
        if method == 'test_start_application':
            return (strategy_arg(), app_arg(True)), expected
        if method == 'stop_application':
            return (app_arg(True), False), expected
        if method in ('start_process', 'restart_process'):
            return (strategy_arg(), namespec_arg(), '', False), expected
        if method == 'test_start_process':
            return (strategy_arg(), namespec_arg()), expected
        if method == 'start_any_process':
            if invalid == 'name':
                return (strategy, 'zzz_no_match', '', False), 'any-fault'
            return (strategy_arg(), rng.choice(['.*', 'p1']), '', False), expected
        if method == 'stop_process':
            return (namespec_arg(), False), expected
        if method == 'update_numprocs':
            # only the rejections are exercised in OPERATION (a real change of numprocs is another story)
            expected = BAD_NAME
            return ('nope', 2, False), expected
        if method in ('enable', 'disable'):
            return (program_arg(), False), expected
        if method == 'restart_sequence':
            return (False,), None
        if method == 'conciliate':
            if invalid == 'strategy':
                return (bad_strategy,), INCORRECT_PARAMETERS
            return (rng.choice(['USER', 'SENICIDE', 'STOP', 2]),), None
        if method == 'end_sync':
            if invalid == 'name':
                return (rng.choice(['nobody', '*', '10.9.9.9:1']),), BAD_NAME
            return (rng.choice(['', '', rng.choice(identifiers)]),), None
        if method in ('get_application_info', 'get_application_rules'):
            return (app_arg(False),), expected
        if method in ('get_process_info', 'get_process_rules', 'get_local_process_info'):
            args = (namespec_arg(),)
            if method == 'get_local_process_info' and args[0].endswith('*'):
                args, expected = (rng.choice(namespecs),), None
            return args, expected
        if method in ('get_instance_state_modes', 'get_network_info', 'get_instance_info',
                      'get_all_inner_process_info'):
            return (identifier_arg(),), expected
        if method == 'get_inner_process_info':
            return (identifier_arg(), rng.choice(namespecs)), expected
        if method == 'change_log_level':
            if invalid == 'strategy':
                return ('loud',), INCORRECT_PARAMETERS
            return (rng.choice(['info', 'debug', 20]),), None
        if method in ('enable_host_statistics', 'enable_process_statistics'):
            return (rng.random() < 0.5,), None
        if method == 'update_collecting_period':
            return (rng.choice([5.0, 10.0]),), None
        return (), None

    # -- one probe ----------------------------------------------------------------------------------
    def probe(self, method=None):
        rng, w = self.rng, self.world
        forced_method = method
        live = [i for i in w.live() if i.http_open]
        if not live:
            return
        inst = rng.choice(live)
        try:
            before_state = peek(w, inst.nick, 'supvisors.get_supvisors_state')
        except Fault:
            return
        state = before_state['fsm_statename']
        master_declared = bool(before_state['master_identifier'])
        method = forced_method or rng.choice(METHODS)
        allowed = gate(method, state, self.user_sync, master_declared)
        if allowed is True and method in ('restart', 'shutdown'):
            return   # issued by the script itself in the closing phase
        invalid = rng.choice([None, None, 'name', 'strategy', 'unmanaged'])
        if allowed is True and state == 'OPERATION' and method in OPERATION_ONLY + OPERATION_CONCILIATION and \
                invalid is None and rng.random() < 0.6:
            invalid = rng.choice(['name', 'strategy', 'unmanaged'])   # keep the cluster mostly at rest
        args, expected = self.params(method, invalid)
        # an instance that has isolated / lost track of itself is out of scope; run what is pending first
        inst.loop()
        if not inst.alive or not inst.http_open:
            return
        try:
            state_now = peek(w, inst.nick, 'supvisors.get_supvisors_state')
        except Fault:
            return
        if state_now['fsm_statename'] != state or bool(state_now['master_identifier']) != master_declared:
            return
        before = status_snapshot(w, inst.nick)
        emitted_before = self.emissions
        res = w.user_rpc(inst.nick, 'supvisors.' + method, *args)
        role = 'master' if before_state['master_identifier'] == inst.identifier else 'other'
        self.count('probes')
        self.count(f'probes_{state}')
        self.cells.add((state, method, role))
        where = f'supvisors.{method}{args} on {inst.nick} ({role}) in {state} at vt={vt(w)}'
        code = res[1] if res[0] == 'fault' else None
        if res[0] == 'http500':
            self.violate(f'C17/internal-error:{method}', f'{where}: HTTP 500')
            return
        # rejected = refused at validation (an accepted request may still fail later, e.g. ABNORMAL_TERMINATION)
        rejected = code in (BAD_SUPVISORS_STATE, NOT_MANAGED, NOT_APPLICABLE, INCORRECT_PARAMETERS, BAD_NAME)
        if allowed is False:
            self.count('gate_closed_checks')
            self.count(f'gate_closed_{state}')
            if code != BAD_SUPVISORS_STATE:
                self.violate(f'C17/served-out-of-state:{method}:{state}', f'{where}: answered {res[:3]} instead of '
                             f'BAD_SUPVISORS_STATE')
        elif allowed == 'reject':
            self.count('gate_closed_checks')
            if code not in (BAD_SUPVISORS_STATE, NOT_APPLICABLE):
                self.violate(f'C17/served-out-of-state:{method}:{state}', f'{where}: answered {res[:3]}')
        elif allowed is True:
            self.count('gate_open_checks')
            self.count(f'gate_open_{state}')
            busy = method == 'restart_sequence' and (state_now['starting_jobs'] or state_now['stopping_jobs'])
            if busy and not (code == BAD_SUPVISORS_STATE and 'jobs in progress' in res[2]):
                # documented gate of restart_sequence: refused while starting / stopping jobs are in progress, on
                # whatever instance (what the instance itself reports just before the call)
                self.violate('C17/served-out-of-state:restart_sequence:jobs-in-progress',
                             f"{where}: answered {res[:3]} although the instance reports starting jobs on "
                             f"{state_now['starting_jobs']} and stopping jobs on {state_now['stopping_jobs']}")
            elif code == BAD_SUPVISORS_STATE and method == 'restart_sequence' and 'jobs in progress' in res[2]:
                # documented: the start sequence is not restarted while jobs are in progress
                self.count('restart_sequence_refused_jobs_in_progress')
            elif code == BAD_SUPVISORS_STATE:
                self.violate(f'C17/refused-in-state:{method}:{state}', f'{where}: BAD_SUPVISORS_STATE {res[2]}')
            elif expected == 'any-fault':
                if res[0] != 'fault':
                    self.violate(f'C17/invalid-parameter-accepted:{method}', f'{where}: answered {res[:2]}')
            elif expected is not None:
                self.count('parameter_checks')
                if code != expected:
                    self.violate(f'C17/wrong-fault:{method}:{invalid}', f'{where}: answered {res[:3]}, expected fault '
                                 f'{expected}')
        if rejected or allowed is False:
            # a rejected request has no effect at all
            self.count('no_effect_checks')
            after = status_snapshot(w, inst.nick) if inst.alive else before
            if self.emissions != emitted_before:
                self.violate(f'C17/rejected-call-emits:{method}', f'{where}: rejected ({res[:3]}) but a start / stop '
                             f'request or a state publication was emitted')
            elif before != after:
                self.violate(f'C17/rejected-call-changes-status:{method}', f'{where}: rejected ({res[:3]}) but the '
                             f'status changed: {snapshot_diff(before, after)}')

    def probes(self, duration, step=(0.4, 1.6), n=(1, 2)):
        w, rng = self.world, self.rng
        end = w.now + duration
        while w.now < end:
            w.run_for(rng.uniform(*step))
            for _ in range(rng.randint(*n)):
                self.probe()

    # -- script -------------------------------------------------------------------------------------
    def execute(self):
        rng = self.rng
        w = self.world = World(self.scenario, seed=self.case['seed'], keep_events=False)
        try:
            def emission(*a, **k):
                self.emissions += 1
            for name in ('send_start_process', 'send_stop_process', 'send_state_event', 'send_restart',
                         'send_shutdown', 'send_restart_all', 'send_shutdown_all'):
                w.on_hook(name, emission)
            stagger = rng.choice([0.0, 3.0, 12.0])
            for spec in w.specs:
                w.at(w.now + rng.uniform(0.0, stagger), w.start_instance, spec['nick'])
            # formation: OFF, SYNCHRONIZATION (held with USER), ELECTION, DISTRIBUTION (slow starts)
            self.probes(rng.choice([15.0, 25.0, 40.0]))
            if self.user_sync:
                for _ in range(6):
                    vws = views(w)
                    waiting = [n for n, v in vws.items() if v['state'] == 'SYNCHRONIZATION' and not v['master_declared']]
                    if not waiting:
                        break
                    w.user_rpc(rng.choice(waiting), 'supvisors.end_sync', '')
                    self.count('end_sync_by_script')
                    # the synchronization is ending: a second end_sync is refused
                    for _ in range(3):
                        self.probe('end_sync')
                        w.run_for(rng.choice([0.0, 0.05, 0.3]))
                    self.probes(4.0)
            self.probes(rng.choice([20.0, 35.0]))
            # OPERATION: a duplicate kept by the USER strategy holds CONCILIATION
            dup = self.duplicate()
            if dup:
                self.count('duplicates_created')
                self.probes(rng.choice([10.0, 20.0]))
                namespec, nick = dup
                w.user_rpc(nick, 'supervisor.stopProcess', namespec, False)
                self.probes(rng.choice([8.0, 15.0]))
            # closing: RESTARTING / SHUTTING_DOWN held by slow stops, then FINAL
            live = [i.nick for i in w.live() if i.sd.options.mood >= 1]
            if live and rng.random() < 0.85:
                kind = rng.choice(['restart', 'shutdown'])
                res = w.user_rpc(rng.choice(live), 'supvisors.' + kind)
                self.count('closing_requests')
                self.probes(rng.choice([10.0, 25.0]), step=(0.2, 0.9), n=(1, 3))
        except Runaway:
            self.count('runaway_cases')
        finally:
            w.close()
        return self.violations

    def duplicate(self):
        w, rng = self.world, self.rng
        running = [(i.nick, ns) for i in w.live() for ns, st in i.running_truth().items()
                   if st in RUNNING_STATES and self.model[ns.split(':')[0]]['managed']]
        rng.shuffle(running)
        for nick, namespec in running:
            others = [i for i in w.live() if i.nick != nick and i.sd.options.mood >= 1
                      and i.running_truth().get(namespec) is not None
                      and i.running_truth()[namespec] not in RUNNING_STATES]
            if others:
                other = rng.choice(others)
                if w.user_rpc(other.nick, 'supervisor.startProcess', namespec, False)[0] == 'ok':
                    return namespec, other.nick
        return None
