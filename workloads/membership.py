""" Membership / fault workload: boot a generated cluster, apply a generated sequence of disturbances (crash,
restart, partition/heal, link cut, late joiner, process kill), then keep quiet and evaluate.

Used by C01, C02, C07, C08, C12, C16 (each with its own knobs and monitors).
"""
import random

from vsim import gen
from vsim.cluster import TICK, views, groups, sync_satisfiable, master_agreement, operational, ident, vt, peek
from vsim.sim import World, Runaway, Livelock, BASE_TIME


def make_scenario(rng, knobs):
    specs = gen.gen_topology(rng, knobs.get('n_min', 2), knobs.get('n_max', 4), knobs.get('max_nodes', 3))
    options = gen.gen_options(rng, specs, allow_user=knobs.get('allow_user', False),
                              allow_shutdown=knobs.get('allow_shutdown', False),
                              synchro=knobs.get('synchro'), fence=knobs.get('fence'))
    for key, value in knobs.get('options', {}).items():
        options[key] = value
    model, groups_by_nick = gen.gen_apps(rng, specs, **knobs.get('apps', {}))
    for spec in specs:
        spec['groups'] = groups_by_nick[spec['nick']]
    if knobs.get('mismatch_p') and len(specs) > 1 and rng.random() < knobs['mismatch_p']:
        # one instance is configured with a different strategy: it must end up isolated, never admitted
        odd = rng.choice(specs)
        name = rng.choice(['auto_fence', 'starting_strategy', 'conciliation_strategy', 'supvisors_failure_strategy'])
        pool = {'auto_fence': ['true', 'false'], 'starting_strategy': gen.STARTING,
                'conciliation_strategy': gen.CONCILIATION, 'supvisors_failure_strategy': ['CONTINUE', 'RESYNC']}[name]
        others = [v for v in pool if v != options.get(name)]
        odd['options'] = {name: rng.choice(others)}
    scenario = {'instances': specs, 'options': options, 'model': model, 'rules_xml': gen.rules_xml(model),
                'sched': gen.gen_sched(rng, specs, knobs.get('profiles')),
                'behaviours': knobs.get('behaviours', {})}
    if knobs.get('handshake_skew'):
        # the XML-RPCs of a handshake take time: its answers (state and modes of the peer ...) are delivered later than
        # what the peer publishes meanwhile
        scenario['sched'] = dict(scenario['sched'], handshake_skew=knobs['handshake_skew'])
    return scenario


def gen_script(rng, scenario, knobs):
    """ Boot times and disturbances. """
    nicks = [s['nick'] for s in scenario['instances']]
    stagger = rng.choice([0.0, 2.0, 8.0, 20.0])
    boot = {n: round(rng.uniform(0.0, stagger), 2) for n in nicks}
    late = None
    if len(nicks) >= 2 and rng.random() < knobs.get('late_p', 0.2):
        late = rng.choice(nicks)
        boot[late] = round(rng.uniform(25.0, 90.0), 2)
    kinds = knobs.get('kinds', ['crash', 'restart', 'restart', 'partition', 'cutlink', 'crash_master',
                                'restart_master', 'proc_kill'])
    n_dist = rng.choice(knobs.get('n_dist', [0, 1, 1, 2, 2, 3]))
    eff = gen.effective_options(scenario['options'])
    k_ticks = bound_ticks(eff)
    dist = []
    if knobs.get('fixed_script'):
        # a scripted sequence of disturbances (families built for one situation): templates with ranges
        used = []
        for tpl in rng.choice(knobs['fixed_script']):
            d = {'kind': tpl['kind'], 'jitter': round(rng.uniform(0.0, TICK), 2),
                 'gap_ticks': rng.choice(tpl.get('gap_ticks', [k_ticks + 2]))}
            if tpl.get('same_target') and used:
                d['target'] = used[-1]
            else:
                d['target'] = rng.choice([n for n in nicks if n not in used] or nicks)
            used.append(d['target'])
            if 'down' in tpl:
                d['down'] = round(rng.uniform(*tpl['down']), 2)
            if 'gap_s' in tpl:
                d['gap_s'] = round(rng.uniform(*tpl['gap_s']), 2)
            dist.append(d)
        return {'boot': boot, 'late': late, 'dist': dist, 'k_ticks': k_ticks}
    for _ in range(n_dist):
        kind = rng.choice(kinds)
        if 'shutdown' in kind and kind.startswith('user_') and eff['failure'] == 'SHUTDOWN':
            kind = 'user_restart'  # keeps the cause of a SHUTTING_DOWN entry unambiguous for the monitors
        d = {'kind': kind, 'gap_ticks': rng.choice([0, 1, 2, 3, k_ticks + 2, k_ticks + 2]),
             'target': rng.choice(nicks), 'jitter': round(rng.uniform(0.0, TICK), 2)}
        if kind in ('restart', 'restart_master'):
            lo, hi = rng.choice([(0.2, 4.0), (4.0, 12.0), (12.0, 40.0)])
            d['down'] = round(rng.uniform(lo, hi), 2)
        if kind == 'partition':
            side = rng.sample(nicks, rng.randint(1, max(1, len(nicks) - 1)))
            d['side'] = sorted(side)
            d['duration'] = round(rng.choice([rng.uniform(2, 9), rng.uniform(10, 30), rng.uniform(30, 70)]), 2)
        if kind == 'cutlink':
            if len(nicks) < 2:
                d['kind'] = 'crash'
            else:
                d['a'], d['b'] = rng.sample(nicks, 2)
                d['duration'] = round(rng.choice([rng.uniform(2, 9), rng.uniform(10, 30), rng.uniform(30, 70)]), 2)
                d['both'] = rng.random() < knobs.get('both_p', 0.7)
        if kind in ('user_restart_shutdown', 'user_shutdown_restart'):
            d['delay2'] = round(rng.choice([0.0, 0.05, 0.3, 1.0, 2.5, 6.0]), 2)
        if rng.random() < knobs.get('trigger_p', 0.0):
            d['when_state'] = rng.choice(['SYNCHRONIZATION', 'ELECTION', 'DISTRIBUTION', 'OPERATION', 'CONCILIATION'])
            d['when_who'] = rng.choice(['master', 'any', 'target'])
        if kind == 'proc_kill_closing':
            # a process whose crash restarts / shuts down Supvisors dies while somebody is in ELECTION (typically
            # right after the previous disturbance brought a new instance in)
            d.pop('when_state', None)
            d['down'] = round(rng.uniform(0.3, 3.0), 2)
            d['lag'] = rng.choice([0.0, 0.0, 0.05, 0.3, 1.0])
        dist.append(d)
    return {'boot': boot, 'late': late, 'dist': dist, 'k_ticks': k_ticks}


def bound_ticks(eff):
    """ K = ceil(synchro_timeout/5) + inactivity_ticks + 12 ticks (DESIGN.md, C01). """
    return -(-eff['synchro_timeout'] // 5) + eff['inactivity_ticks'] + 12


class Run:
    """ One execution; monitors get the world before the run (attach) and the outcome after it (finish). """

    def __init__(self, case, knobs, monitors):
        self.case = case
        self.rng = random.Random(case['seed'])
        self.knobs = knobs
        self.scenario = make_scenario(self.rng, knobs)
        self.script = gen_script(self.rng, self.scenario, knobs)
        self.monitors = monitors
        self.world = None
        self.samples = []          # (vt, {nick: view}) once per tick
        self.disturbances = []     # applied: {'vt', 'kind', ..., 'pre': {...}}
        self.outcome = {}
        self.counters = {}

    def count(self, name, n=1):
        self.counters[name] = self.counters.get(name, 0) + n

    # -- script execution ---------------------------------------------------------------------------
    def current_master(self, vws):
        masters = [v['master'] for v in vws.values() if v['master']]
        if not masters:
            return None
        best = max(set(masters), key=masters.count)
        return self.world.by_identifier.get(best)

    def sample(self):
        w = self.world
        vws = views(w)
        comps, cliques = groups(w, vws)
        self.samples.append({'vt': vt(w), 'views': vws, 'groups': comps, 'cliques': cliques,
                             'incs': {i.nick: i.inc for i in w.live()}, 'cut': bool(w.cut),
                             'cut_count': getattr(w, 'cut_count', 0)})
        return vws

    def run_ticks(self, n, stop=None):
        """ Run n ticks of virtual time, sampling the views once per tick. """
        w = self.world
        for _ in range(int(n)):
            w.run_for(TICK)
            vws = self.sample()
            if stop is not None and stop(vws):
                return True
        return False

    def wait_state(self, d):
        w = self.world
        deadline = w.now + 20 * TICK

        def matched():
            vws = views(w)
            who = d['when_who']
            if who == 'master':
                m = self.current_master(vws)
                names = [m] if m else []
            elif who == 'target':
                names = [d['target']]
            else:
                names = list(vws)
            return any(n in vws and vws[n]['state'] == d['when_state'] for n in names)

        while w.now < deadline:
            if matched():
                return True
            w.run_for(0.25)
        return False

    def snapshot_pre(self):
        w = self.world
        vws = views(w)
        comps, cliques = groups(w, vws)
        pre = []
        for comp, clique in zip(comps, cliques):
            ok, mnick, _ = master_agreement(w, comp, vws) if clique else (False, None, '')
            pre.append({'group': comp, 'converged': ok, 'master': mnick})
        return pre

    def apply(self, d):
        w = self.world
        rec = dict(d)
        rec['pre'] = self.snapshot_pre()
        vws = views(w)
        kind = d['kind']
        target = d['target']
        if kind in ('crash_master', 'restart_master'):
            target = self.current_master(vws) or target
            kind = kind.split('_')[0]
        rec['target'] = target
        rec['kind_eff'] = kind
        rec['vt'] = vt(w)
        if kind == 'crash':
            if w.instances.get(target) and w.instances[target].alive:
                w.crash_instance(target)
            else:
                rec['noop'] = True
        elif kind == 'restart':
            inst = w.instances.get(target)
            if inst and inst.alive:
                w.crash_instance(target)
                w.at(w.now + d['down'], self._reboot, target)
                self.pending_until = max(self.pending_until, w.now + d['down'])
            else:
                rec['noop'] = True
        elif kind == 'partition':
            side_a = d['side']
            side_b = [s['nick'] for s in w.specs if s['nick'] not in side_a]
            if side_b:
                w.partition(side_a, side_b)
                w.at(w.now + d['duration'], self._heal_partition, side_a, side_b)
                self.pending_until = max(self.pending_until, w.now + d['duration'])
            else:
                rec['noop'] = True
        elif kind == 'cutlink':
            w.cut_link(d['a'], d['b'], d['both'])
            w.at(w.now + d['duration'], w.heal_link, d['a'], d['b'], d['both'])
            self.pending_until = max(self.pending_until, w.now + d['duration'])
        elif kind == 'proc_kill':
            rec['noop'] = not self.kill_some_process(target)
        elif kind == 'proc_kill_closing':
            # a non-Master instance restarts quickly: when it is admitted again the Master goes through ELECTION; a
            # process whose crash restarts / shuts down Supvisors dies at that moment
            master = self.current_master(vws)
            others = [i.nick for i in w.live() if i.nick != master]
            rec['noop'] = True
            rec['why'] = 'no-master-or-peer'
            if master and others:
                rec['why'] = 'no-election'
                victim = self.rng.choice(others)
                rec['restarted'] = victim
                w.crash_instance(victim)
                w.at(w.now + d['down'], self._reboot, victim)
                armed = {'on': True}

                def kill():
                    rec['noop'] = not self.kill_some_process(target, closing=True)
                    rec['why'] = 'no-candidate' if rec['noop'] else 'applied'

                def on_state(inst, payload):
                    # the Master publishes ELECTION: the process dies now (or a little later)
                    if armed['on'] and inst.nick == master and payload['fsm_statename'] == 'ELECTION':
                        armed['on'] = False
                        w.at(w.now + d['lag'], kill)
                w.on_hook('send_state_event', on_state)
                deadline = w.now + 25 * TICK
                while w.now < deadline and armed['on']:
                    w.run_for(0.5)
                armed['on'] = False
                w.run_for(d['lag'] + 0.01)
            self.pending_until = max(self.pending_until, w.now + 40.0)
        elif kind == 'dup':
            rec['noop'] = not self.duplicate_some_process()
        elif kind in ('user_restart_shutdown', 'user_shutdown_restart'):
            # two closing requests in a row, the second one while the first is being served
            first, second = kind.split('_')[1:]
            inst = w.instances.get(target)
            if inst and inst.alive:
                rec['result'] = w.user_rpc(target, 'supvisors.' + first)
                w.run_for(d.get('delay2', 0.5))
                live = [i.nick for i in w.live() if i.sd.options.mood >= 1]
                if live:
                    other = self.rng.choice(live)
                    rec['result2'] = (other, w.user_rpc(other, 'supvisors.' + second))
                self.pending_until = max(self.pending_until, w.now + 60.0)
            else:
                rec['noop'] = True
        elif kind in ('user_restart', 'user_shutdown'):
            inst = w.instances.get(target)
            if inst and inst.alive:
                rec['result'] = w.user_rpc(target, 'supvisors.' + kind.split('_')[1])
                # every instance is expected to go down (and come back on restart)
                self.pending_until = max(self.pending_until, w.now + 60.0)
            else:
                rec['noop'] = True
        self.disturbances.append(rec)
        w.emit('disturbance', d={k: v for k, v in rec.items() if k != 'pre'})

    def _reboot(self, nick):
        w = self.world
        inst = w.instances.get(nick)
        if inst is None or not inst.alive:
            spec = w.spec_of(nick)
            if self.knobs.get('host_reboot_p') and self.rng.random() < self.knobs['host_reboot_p'] and \
                    sum(1 for s in w.specs if s['node'] == spec['node']) == 1:
                # the whole host has rebooted (the instance is alone on its node): its monotonic clock starts again
                # near zero, far below what its previous incarnation stamped its messages with
                spec['mono_off'] = round(-(w.now - BASE_TIME) + self.rng.uniform(5.0, 90.0), 3)
                self.count('host_reboots')
            w.start_instance(nick)
            self.last_membership_change = w.now

    def _heal_partition(self, side_a, side_b):
        w = self.world
        for a in side_a:
            for b in side_b:
                w.heal_link(a, b)
        self.last_membership_change = w.now

    def kill_some_process(self, nick, closing=False):
        """ A running process dies unexpectedly (SIGKILL from outside Supervisor). """
        w = self.world
        candidates = []
        procs = gen.model_processes(self.scenario['model'])
        for inst in w.live():
            for pid, rec in inst.procs.items():
                if not rec['dead'] and rec.get('death_at') is None:
                    if closing:
                        app_name, prog_name = procs.get(rec['namespec'], (None, None))
                        prog = self.scenario['model'].get(app_name, {}).get('programs', {}).get(prog_name, {})
                        if prog.get('running_failure_eff') not in ('RESTART', 'SHUTDOWN'):
                            continue
                    candidates.append((inst, pid))
        if not candidates:
            return False
        inst, pid = self.rng.choice(candidates)
        inst._schedule_death(pid, w.now, 9)
        return True

    def duplicate_some_process(self):
        """ Start, directly through Supervisor, a second copy of a process already running elsewhere. """
        w = self.world
        from supervisor.states import RUNNING_STATES
        model = self.scenario['model']
        running = []
        for inst in w.live():
            for namespec, state in inst.running_truth().items():
                if state in RUNNING_STATES and model[namespec.split(':')[0]]['managed']:
                    running.append((inst.nick, namespec))
        self.rng.shuffle(running)
        for nick, namespec in running:
            others = [i for i in w.live() if i.nick != nick and i.sd.options.mood >= 1
                      and i.running_truth().get(namespec) is not None
                      and i.running_truth()[namespec] not in RUNNING_STATES]
            if others:
                other = self.rng.choice(others)
                res = w.user_rpc(other.nick, 'supervisor.startProcess', namespec, False)
                return res[0] == 'ok'
        return False

    # -- main ---------------------------------------------------------------------------------------
    def execute(self):
        scn, script = self.scenario, self.script
        w = self.world = World(scn, seed=self.case['seed'], use_publisher=self.knobs.get('publisher', False),
                               keep_events=self.knobs.get('keep_events', False))
        self.pending_until = 0.0
        self.last_membership_change = w.now
        try:
            for monitor in self.monitors:
                monitor.attach(self)
            self.injected = []
            if self.knobs.get('crash_on_request_p'):
                from vsim.faults import crash_target_on_request
                crash_target_on_request(self, self.knobs['crash_on_request_p'])
            for nick, delay in script['boot'].items():
                w.at(w.now + delay, self._reboot, nick)
            k = script['k_ticks']
            # phase A: formation
            last_boot = max(script['boot'].values())
            if script['late'] is None:
                self.run_ticks(int(last_boot // TICK) + k)
            else:
                others = [v for n, v in script['boot'].items() if n != script['late']]
                self.run_ticks(int((max(others) if others else 0.0) // TICK) + 6)
            self.maybe_end_sync()
            # phase B: disturbances
            for d in script['dist']:
                self.run_ticks(d['gap_ticks'])
                w.run_for(d['jitter'])
                if d.get('when_state'):
                    if not self.wait_state(d):
                        continue
                self.apply(d)
            # wait for the scripted heals / reboots / late joiner
            end = max(self.pending_until, BASE_TIME + last_boot)
            if end > w.now:
                self.run_ticks(int((end - w.now) // TICK) + 1)
            self.maybe_end_sync()
            self.t_quiet = vt(w)
            # phase C: quiet period, two stages
            self.final(k)
            violations = []
            for monitor in self.monitors:
                violations.extend(monitor.finish(self) or [])
                for name, value in monitor.counters.items():
                    self.count(name, value)
            return violations
        except Runaway:
            self.count('runaway_cases')
            return [v for monitor in self.monitors for v in monitor.violations]
        except Livelock as exc:
            self.count('livelock_cases')
            for monitor in self.monitors:
                monitor.on_livelock(self, exc)
            return [v for monitor in self.monitors for v in monitor.violations]
        finally:
            w.close()

    def maybe_end_sync(self):
        """ With USER as the only way out of SYNCHRONIZATION, the user ends the synchronization. """
        w = self.world
        eff = gen.effective_options(self.scenario['options'])
        if 'USER' not in eff['synchro']:
            return
        vws = views(w)
        for nick, v in vws.items():
            if v['state'] == 'SYNCHRONIZATION' and not v['master_declared']:
                running = [i for i, s in v['instance_states'].items() if s == 'RUNNING']
                if running:
                    res = w.user_rpc(nick, 'supvisors.end_sync', '')
                    self.count('end_sync_calls')
                    w.run_for(0.5)
                    break

    def final(self, k):
        w = self.world

        def converged(vws):
            comps, cliques = groups(w, vws)
            for comp, clique in zip(comps, cliques):
                if not clique or not sync_satisfiable(w, comp):
                    continue
                ok, _, _ = master_agreement(w, comp, vws)
                if not ok:
                    return False
            return True

        self.outcome['stage1_converged'] = None
        for stage in (1, 2):
            self.run_ticks(k)
            vws = self.samples[-1]['views']
            comps, cliques = groups(w, vws)
            self.outcome[f'stage{stage}'] = {'vt': vt(w), 'views': vws, 'groups': comps, 'cliques': cliques,
                                             'quiescent': w.quiescent()}
            if stage == 1:
                ok_all = converged(vws) and self.all_operational(vws, comps, cliques)
                self.outcome['stage1_converged'] = ok_all
                if ok_all:
                    # a couple of extra ticks to make sure the state is stable
                    self.run_ticks(3)
                    vws = self.samples[-1]['views']
                    comps, cliques = groups(w, vws)
                    self.outcome['stage2'] = {'vt': vt(w), 'views': vws, 'groups': comps, 'cliques': cliques,
                                              'quiescent': w.quiescent()}
                    break

    def all_operational(self, vws, comps, cliques):
        w = self.world
        user = self.scenario['options'].get('conciliation_strategy') == 'USER'
        for comp, clique in zip(comps, cliques):
            if not clique or not sync_satisfiable(w, comp):
                continue
            ok, _ = operational(w, comp, vws, user_conciliation=user)
            if not ok:
                return False
        return True

    def describe(self):
        scn = self.scenario
        return {'instances': [(s['nick'], s['node'], s['port']) for s in scn['instances']],
                'options': scn['options'], 'sched': scn['sched'].get('name'),
                'instance_options': {s['nick']: s['options'] for s in scn['instances'] if s.get('options')},
                'apps': {a: {'managed': m['managed'], 'programs': list(m['programs'])}
                         for a, m in scn['model'].items()},
                'boot': self.script['boot'],
                'disturbances': [{k: v for k, v in d.items() if k != 'pre'} for d in self.disturbances],
                'injected_faults': getattr(self, 'injected', [])}

    def shape(self):
        """ Identity of the case for distinctness: topology, options, script shape, schedule profile. """
        scn = self.scenario
        eff = gen.effective_options(scn['options'])
        return '|'.join([str(len(scn['instances'])), str(len({s['node'] for s in scn['instances']})),
                         ','.join(eff['synchro']), eff['failure'], str(eff['auto_fence']), str(bool(eff['core'])),
                         scn['sched'].get('name', ''),
                         ','.join(f"{d['kind_eff']}{'*' if d.get('noop') else ''}" for d in self.disturbances),
                         str(self.script['late'] is not None)])
