""" C13 (L2): one real instance, scripted peers, randomised schedule of handshakes, publications, forged / stale /
duplicated notifications, failures and time; reference model of the handshake and non-interference oracle. """
import random

from vsim.cluster import TICK, Fault, peek, status_snapshot, snapshot_diff
from vsim.l2 import (L2, PUBLICATION, NOTIFICATION, TICK as H_TICK, PROCESS, PROCESS_ADDED, PROCESS_REMOVED,
                     PROCESS_DISABILITY, HOST_STATISTICS, PROCESS_STATISTICS, STATE, IDENTIFICATION, AUTHORIZATION,
                     N_STATE, ALL_INFO, INSTANCE_FAILURE, AUTH_CODES)
from vsim.sim import BASE_TIME

GROUPS = {'app1': {'p1': {}, 'p2': {'numprocs': 2}}, 'app2': {'q1': {}}}
STRATEGY_DELTAS = [('auto-fencing', None), ('starting', 'LESS_LOADED'), ('starting', 'MOST_LOADED'),
                   ('conciliation', 'SENICIDE'), ('conciliation', 'STOP'), ('supvisors_failure', 'RESYNC'),
                   ('supvisors_failure', 'SHUTDOWN')]
# rules with operational status formulas made of patterns (evaluated on every process event, addition and removal)
FORMULA_RULES = ('<?xml version="1.0" encoding="UTF-8" standalone="no"?>\n<root>\n'
                 '<application name="app1"><start_sequence>1</start_sequence>'
                 '<operational_status>all(\'p2_.*\') and any(\'p.*\')</operational_status></application>\n'
                 '<application name="app2"><operational_status>any(\'q.*\') or \'q1\'</operational_status>'
                 '</application>\n</root>')
# PROCESS_ADDED is deliberately loaded whatever the state of the peer (check_state=False) and is not in the statement
EVENT_PUBLICATIONS = (PROCESS, PROCESS_REMOVED, PROCESS_DISABILITY)


class FuzzRun:

    def __init__(self, case, knobs, monitors=()):
        self.case = case
        self.knobs = knobs
        self.monitors = list(monitors)
        self.rng = random.Random(case['seed'])
        self.counters = {}
        self.violations = []
        self.trace = []

    def count(self, name, n=1):
        self.counters[name] = self.counters.get(name, 0) + n

    def violate(self, key, msg):
        if len(self.violations) < 10:
            self.violations.append({'key': key, 'msg': msg, 'detail': {'case': self.describe(),
                                                                      'trace': self.trace[-40:]}})

    def vt(self):
        return round(self.l2.world.now - BASE_TIME, 3)

    def describe(self):
        return {'options': self.options, 'n': self.n}

    def shape(self):
        kinds = sorted({t[1] for t in self.trace})
        c = self.counters
        return '|'.join([str(self.n), self.options['auto_fence'], str(self.options['inactivity_ticks']),
                         ','.join(k[:4] for k in kinds),
                         str(min(c.get('isolations', 0), 3)), str(min(c.get('admissions', 0), 3)),
                         str(min(c.get('isolations_at_handshake', 0), 2)),
                         ','.join(sorted({t[3].split()[0] + t[3].split()[1] for t in self.trace if t[1] == 'inject'
                                          and t[4] == 'ISOLATED' and len(t[3].split()) > 1}))])

    # -- set-up -------------------------------------------------------------------------------------
    def execute(self):
        rng = self.rng
        self.n = rng.choice([2, 3, 3, 4])
        self.options = {'auto_fence': rng.choice(['true', 'true', 'false']),
                        'synchro_options': 'TIMEOUT', 'synchro_timeout': rng.choice([8, 12, 20]),
                        'inactivity_ticks': rng.choice([2, 3]),
                        'starting_strategy': 'CONFIG', 'conciliation_strategy': 'USER',
                        'supvisors_failure_strategy': 'CONTINUE'}
        kw = {}
        if self.knobs.get('formula_rules_p') and rng.random() < self.knobs['formula_rules_p']:
            kw['rules_xml'] = FORMULA_RULES
            self.options['rules'] = 'formulas'
        self.l2 = l2 = L2(n=self.n, options={k: v for k, v in self.options.items() if k != 'rules'}, groups=GROUPS,
                          seed=self.case['seed'], **kw)
        w = l2.world
        try:
            self.peers = {}    # identifier -> monitor record
            for puppet in l2.puppets.values():
                self.peers[puppet.identifier] = {'puppet': puppet, 'state': 'STOPPED', 'checking_seq': None,
                                                 'isolated_seq': None, 'isolated_t': None, 'auth_queue': []}
            w.on_hook('instance_state', self.on_instance_state)
            w.listeners.append(self.on_event)
            self.world = w
            for monitor in self.monitors:
                monitor.attach(self)
            for _ in range(rng.choice(self.knobs.get('n_steps', [60, 100, 160]))):
                self.one_action()
                if w.steps > 60000:
                    break
            # settle: everything delivered, a few ticks
            for _ in range(4):
                l2.drain()
                l2.advance(TICK)
            l2.drain()
            self.final_checks()
            for monitor in self.monitors:
                self.violations.extend(monitor.finish(self) or [])
                for name, value in monitor.counters.items():
                    self.count(name, value)
        finally:
            l2.close()
        return self.violations

    # -- observation --------------------------------------------------------------------------------
    def on_instance_state(self, inst, identifier, new_state):
        rec = self.peers.get(identifier)
        if rec is None:
            return
        l2 = self.l2
        old, new = rec['state'], new_state.name
        rec['state'] = new
        self.trace.append((self.vt(), 'state', rec['puppet'].nick, f'{old}->{new}'))
        puppet = rec['puppet']
        if old == 'ISOLATED':
            self.violate('C13/isolation-not-permanent', f'{puppet.nick} goes ISOLATED -> {new} at vt={self.vt()}')
        if new == 'CHECKING':
            rec['checking_seq'] = l2.sequence
        elif new == 'STOPPED' and old == 'CHECKING':
            # every handshake of this CHECKING phase said 'isolated' or 'inconsistent': the peer must be ISOLATED
            since = [h for h in puppet.handshakes if h['seq'] > rec['checking_seq']]
            self.count('handshakes_given_up')
            if since and all(h['expected'] in ('NOT_AUTHORIZED', 'INCONSISTENT') for h in since):
                self.violate('C13/refused-peer-not-isolated',
                             f'{puppet.nick} goes CHECKING -> STOPPED at vt={self.vt()} although every handshake of this '
                             f"CHECKING phase was refused ({[(h['seq'], h['expected']) for h in since]}): it must be "
                             f'ISOLATED')
        elif new == 'ISOLATED':
            rec['isolated_seq'] = l2.sequence
            rec['isolated_t'] = l2.world.now
            self.count('isolations')
            if old == 'CHECKING':
                self.count('isolations_at_handshake')
                # a handshake started in this CHECKING phase must have told so
                since = [h for h in puppet.handshakes if h['seq'] > rec['checking_seq']]
                if not any(h['expected'] in ('NOT_AUTHORIZED', 'INCONSISTENT') for h in since) and \
                        not rec.get('forged_fresh'):
                    self.violate('C13/isolated-without-cause',
                                 f'{puppet.nick} goes CHECKING -> ISOLATED at vt={self.vt()} although no handshake '
                                 f'started in this CHECKING phase reported an isolation or an inconsistency '
                                 f"(handshakes since: {[(h['seq'], h['expected']) for h in since]})")
        elif new == 'CHECKED':
            self.count('admissions')
            since = [h for h in puppet.handshakes if h['seq'] > rec['checking_seq']]
            valid = any(h['expected'] == 'AUTHORIZED' for h in since)
            if valid:
                self.count('admissions_on_valid_handshake')
            else:
                self.count('admissions_without_valid_handshake')
            # the peer has been reporting the local instance ISOLATED (or inconsistent strategies) since before this
            # CHECKING phase began: no handshake of this phase can have authorized it
            if puppet.expected_authorization() != 'AUTHORIZED' and puppet.changed_seq < rec['checking_seq'] \
                    and not rec.get('forged_fresh'):
                self.violate('C13/admitted-despite-' + puppet.expected_authorization().lower(),
                             f'{puppet.nick} goes CHECKING -> CHECKED at vt={self.vt()} although it has been answering '
                             f'{puppet.expected_authorization()} since before this CHECKING phase began '
                             f"(handshakes: {[(h['seq'], h['expected']) for h in puppet.handshakes[-4:]]}, CHECKING "
                             f"entered at sequence {rec['checking_seq']})")

    def on_event(self, ev):
        if ev['k'] == 'rpc_call' and ev['src'] == 'sv1' and ev['dst'] in self.l2.puppets:
            puppet = self.l2.puppets[ev['dst']]
            rec = self.peers[puppet.identifier]
            self.count('rpcs_to_peers')
            if rec['isolated_t'] is not None:
                self.count('rpcs_to_isolated_checked')
                pushed_at = self.l2.stepping_pushed_at
                if pushed_at is not None and pushed_at <= rec['isolated_t']:
                    # queued before the isolation: the driver kept it longer than a real thread would have
                    self.count('messages_queued_before_isolation')
                elif self.l2.world.now > rec['isolated_t'] + TICK:
                    self.violate('C13/message-sent-to-isolated-peer',
                                 f"{ev['method']} sent to {puppet.nick} at vt={self.vt()}, isolated since "
                                 f"vt={round(rec['isolated_t'] - BASE_TIME, 3)}")

    # -- actions ------------------------------------------------------------------------------------
    def one_action(self):
        rng, l2 = self.rng, self.l2
        roll = rng.random()
        puppet = rng.choice(list(l2.puppets.values()))
        if roll < 0.22:
            duration = rng.choice([0.1, 0.5, 1.0, 2.5, 5.0, 6.0])
            self.trace.append((self.vt(), 'advance', duration))
            l2.advance(duration)
        elif roll < 0.47:
            ready = l2.enabled()
            if ready:
                proxy = rng.choice(ready)
                self.trace.append((self.vt(), 'step', l2.world.by_identifier.get(proxy.status.identifier),
                                   str(proxy.fifo[0])[:80]))
                l2.step(proxy)
                self.count('proxy_steps')
            else:
                l2.advance(rng.choice([0.1, 0.5]))
        elif roll < 0.67:
            self.send_tick(puppet)
        elif roll < 0.79:
            self.send_publication(puppet)
        elif roll < 0.87:
            self.change_disposition(puppet)
        elif roll < 0.96:
            self.send_notification(puppet)
        else:
            self.trace.append((self.vt(), 'drain'))
            l2.drain()

    def send_tick(self, puppet):
        if self.rng.random() < 0.04:
            puppet.counter = 0      # the peer has restarted
        self.inject(puppet, PUBLICATION, puppet.origin, H_TICK, puppet.tick(), 'tick')

    def send_publication(self, puppet):
        rng = self.rng
        header = rng.choice([PROCESS, PROCESS, PROCESS, STATE, PROCESS_ADDED, PROCESS_REMOVED, PROCESS_DISABILITY,
                             HOST_STATISTICS, PROCESS_STATISTICS])
        rec = self.peers[puppet.identifier]
        if header in (HOST_STATISTICS, PROCESS_STATISTICS) and rec['state'] != 'ISOLATED':
            header = PROCESS
        namespec = rng.choice(['app1:p1', 'app1:p2_01', 'app1:p2_02', 'app2:q1'])
        if self.knobs.get('unknown_process_p') and rng.random() < self.knobs['unknown_process_p']:
            # an event about a process, or an application, that the local instance has never heard of
            namespec = rng.choice(['app1:ghost', 'ghost:p1', 'app2:p1'])
        extra = None
        if self.knobs.get('extra_process_p') and rng.random() < self.knobs['extra_process_p']:
            # a process that only some peers know (added and removed at run time there), matching the patterns
            namespec = extra = rng.choice(['app1:p2_03', 'app1:p2_03', 'app2:q2'])
            self.count('events_about_a_process_known_to_peers_only')
        if header == PROCESS:
            state = rng.choice([0, 10, 20, 20, 100, 200])
            if rec['state'] in ('CHECKED', 'RUNNING'):
                puppet.proc_states[namespec] = state
            body = puppet.process_event(namespec, state)
        elif header == STATE:
            puppet.fsm = rng.choice(['OFF', 'SYNCHRONIZATION', 'OPERATION'])
            body = puppet.state_modes()
        elif header in (PROCESS_ADDED, PROCESS_DISABILITY):
            infos = puppet.all_process_info()
            body = dict(rng.choice(infos))
            if header == PROCESS_DISABILITY and ':' in namespec and namespec.split(':')[1] in ('ghost',) or \
                    namespec.startswith('ghost'):
                body['group'], body['name'] = namespec.split(':')
            if extra:
                body['group'], body['name'] = extra.split(':')
            if header == PROCESS_DISABILITY:
                body['disabled'] = rng.random() < 0.5
        elif header == PROCESS_REMOVED:
            group, name = namespec.split(':')
            body = {'name': name, 'group': group}
        else:
            body = {'now': self.l2.world.now, 'cpu': [1.0], 'mem': 1.0, 'net_io': {}, 'disk_io': {}, 'disk_usage': {}}
        self.inject(puppet, PUBLICATION, self.origin_variant(puppet), header, body, f'publication {header}')

    def origin_variant(self, puppet):
        """ The claimed origin: the right one most of the time. """
        roll = self.rng.random()
        if roll < 0.75:
            return puppet.origin
        if roll < 0.85:
            # an identifier the local instance does not know, with the right nick and address: the origin is resolved
            # through the nick identifier, as Context.is_valid documents
            return [f"alias-of-{puppet.nick}.sim:{puppet.spec['port']}", puppet.nick, list(puppet.origin[2])]
        if roll < 0.90:
            # right identifier, wrong address
            return [puppet.identifier, puppet.nick, ['10.9.9.9', puppet.spec['port']]]
        if roll < 0.94:
            # right identifier, wrong port
            return [puppet.identifier, puppet.nick, [puppet.spec['ip'], puppet.spec['port'] + 7]]
        # wrong nick with the right identifier
        return [puppet.identifier, 'nobody', list(puppet.origin[2])]

    def change_disposition(self, puppet):
        rng = self.rng
        roll = rng.random()
        if roll < 0.35:
            puppet.view_of_local = rng.choice(['RUNNING', 'ISOLATED', 'ISOLATED', 'STOPPED', 'CHECKED'])
        elif roll < 0.55:
            delta = rng.choice(STRATEGY_DELTAS + [None, None, None])
            if delta and delta[0] == 'auto-fencing':
                delta = ('auto-fencing', self.options['auto_fence'] != 'true')
            puppet.strategy_delta = delta
        elif roll < 0.7:
            puppet.up = not puppet.up
        else:
            puppet.rpc_latency = rng.choice([0.0, 0.0, 0.0, 0.05, 0.5, 1.5, 3.0])
        puppet.changed_seq = self.l2.sequence
        self.trace.append((self.vt(), 'disposition', puppet.nick,
                           (puppet.view_of_local, puppet.strategy_delta, puppet.up, puppet.rpc_latency)))

    def send_notification(self, puppet):
        """ Notifications are normally pushed by the proxy threads of the local instance: here duplicated, stale or
        forged ones, attributed to the peer. """
        rng, l2 = self.rng, self.l2
        rec = self.peers[puppet.identifier]
        status = l2.supvisors.context.instances[puppet.identifier]
        header = rng.choice([AUTHORIZATION, AUTHORIZATION, AUTHORIZATION, N_STATE, ALL_INFO, INSTANCE_FAILURE,
                             IDENTIFICATION])
        # stale = stamped before the entry in the current CHECKING phase; fresh forgeries only towards isolated peers
        stale_stamp = max(0.0, status.checking_time - rng.choice([0.001, 1.0, 30.0]))
        fresh_stamp = l2.world.now - BASE_TIME + 1000.0 + rng.choice([0.0, 5.0])
        fresh = rec['state'] == 'ISOLATED' and rng.random() < 0.6
        stamp = fresh_stamp if fresh else stale_stamp
        if header == AUTHORIZATION:
            body = {'authorization': rng.choice(list(AUTH_CODES.values())), 'now_monotonic': stamp}
        elif header == N_STATE:
            body = puppet.state_modes(fsm_statecode=4, fsm_statename='OPERATION', master_identifier=puppet.identifier)
        elif header == ALL_INFO:
            infos = puppet.all_process_info()
            for info in infos:
                info['state'], info['statename'] = 20, 'RUNNING'
            body = infos
        elif header == INSTANCE_FAILURE:
            body = None
        else:
            body = puppet.network_info()
            body['now_monotonic'] = stamp
            body['host_id'] = '10.8.8.8'
        self.inject(puppet, NOTIFICATION, self.origin_variant(puppet), header, body,
                    f"notification {header} {'fresh' if fresh else 'stale'}")

    # -- injection with the non-interference oracle -------------------------------------------------
    def inject(self, puppet, kind, origin, header, body, label):
        l2 = self.l2
        rec = self.peers[puppet.identifier]
        state = rec['state']
        isolated = state == 'ISOLATED'
        # an unknown nick alone is tolerated by design, and so is any address until the network information of the peer
        # has been received (first successful identification)
        wrong_origin = origin[2][1] != puppet.origin[2][1] or \
            (origin[2][0] != puppet.origin[2][0] and self.identified(puppet))
        guarded = isolated or wrong_origin or \
            (kind == PUBLICATION and header in EVENT_PUBLICATIONS and state not in ('CHECKED', 'RUNNING'))
        stale_handshake = kind == NOTIFICATION and header in (AUTHORIZATION, IDENTIFICATION) and 'stale' in label
        if guarded or stale_handshake:
            # whatever the local instance has to do by itself at this instant (local TICK...) is done first
            l2.inst.loop()
        before = status_snapshot(l2.world, 'sv1') if guarded or stale_handshake else None
        self.trace.append((self.vt(), 'inject', puppet.nick, label, state, 'wrong-origin' if wrong_origin else ''))
        l2.send(kind, origin, header, body)
        self.count('messages_injected')
        if before is not None:
            after = status_snapshot(l2.world, 'sv1')
            self.count('non_interference_checks')
            if isolated:
                self.count('non_interference_checks_isolated')
            if before != after:
                why = 'isolated-peer' if isolated else 'wrong-origin' if wrong_origin else \
                    'stale-handshake-result' if stale_handshake else 'peer-not-admitted'
                self.violate(f'C13/interference:{why}:{label.split()[0]}-{header}',
                             f'{label} attributed to {puppet.nick} ({state} at the local instance) changed its status '
                             f'at vt={self.vt()}: {snapshot_diff(before, after)}')

    def identified(self, puppet):
        try:
            info = peek(self.l2.world, 'sv1', 'supvisors.get_network_info', puppet.identifier)
        except Fault:
            return False
        return bool(info.get('network', {}).get('addresses'))

    # -- end ----------------------------------------------------------------------------------------
    def final_checks(self):
        l2 = self.l2
        try:
            reported = {info['identifier']: info['statename']
                        for info in peek(l2.world, 'sv1', 'supvisors.get_all_instances_info')}
        except Fault:
            return
        for identifier, rec in self.peers.items():
            self.count('final_states_compared')
            if rec['isolated_seq'] is not None and reported.get(identifier) != 'ISOLATED':
                self.violate('C13/isolation-not-permanent', f"{rec['puppet'].nick} has been ISOLATED and is reported "
                             f'{reported.get(identifier)} at the end')
            if rec['state'] != reported.get(identifier):
                self.violate('C13/unobserved-state-change', f"{rec['puppet'].nick} reported {reported.get(identifier)} "
                             f"but last observed change was to {rec['state']}")
