""" C13 (silence) on the REAL proxy threads: one real booted instance, a real SupervisorProxyServer whose proxies are
real SupervisorProxyThread objects (threads started, real run() / stop() / join()), the XML-RPC client of each proxy
replaced by a recorder that can hang. A backlog of requests and publications builds up behind a hanging XML-RPC, the
peer is then marked ISOLATED through the real state setter and the next publication closes its proxy.

Oracle (offline, over the recorded history, logical clock = position in the history): once stop() has been called on
the proxy of an isolated peer, the loop of the unchanged thread can take at most ONE more message out of its queue (it
may have tested the stop flag just before); every further message taken out of the queue after that instant and sent
to the isolated peer is a violation of 'no publication or request is sent to it'. """
import queue
import random
import threading
import time as _time

from vsim.single import Single

REAL_SLEEP = _time.sleep


class FuzzRun:
    def __init__(self, case):
        self.case = case
        self.rng = random.Random(case['seed'])
        self.counters = {}
        self.history = []
        self.lock = threading.Lock()

    def count(self, name, n=1):
        self.counters[name] = self.counters.get(name, 0) + n

    def log(self, *rec):
        with self.lock:
            self.history.append(rec)
            return len(self.history) - 1

    def execute(self):
        rng = self.rng
        single = Single(n=3, seed=self.case['seed'], options={'auto_fence': 'true'})
        violations = []
        try:
            sv = single.supvisors
            from supvisors.internal_com.supervisorproxy import SupervisorProxyServer, SupervisorProxyThread
            from supvisors.ttypes import SupvisorsInstanceStates as S, PublicationHeaders, RequestHeaders
            run = self
            gate = threading.Event()
            gate.set()

            class Namespace:
                def __init__(self, peer, ns):
                    self.peer, self.ns = peer, ns

                def __getattr__(self, method):
                    def call(*args):
                        run.log('send', self.peer, f'{self.ns}.{method}', threading.current_thread().name)
                        gate.wait(timeout=10.0)
                        run.log('sent', self.peer, f'{self.ns}.{method}')
                        return True
                    return call

            class FakeRPC:
                def __init__(self, peer):
                    self.supervisor = Namespace(peer, 'supervisor')
                    self.supvisors = Namespace(peer, 'supvisors')

            class RecQueue(queue.Queue):
                def __init__(self, peer):
                    queue.Queue.__init__(self)
                    self.peer = peer

                def get(self, block=True, timeout=None):
                    item = queue.Queue.get(self, block, timeout)
                    run.log('dequeue', self.peer)
                    return item

            class Probe(SupervisorProxyThread):
                def __init__(self, status, supvisors):
                    SupervisorProxyThread.__init__(self, status, supvisors)
                    self.queue = RecQueue(status.identifier)

                def _get_proxy(self):
                    return FakeRPC(self.status.identifier)

                def stop(self):
                    run.log('stop_called', self.status.identifier)
                    SupervisorProxyThread.stop(self)

            server = SupervisorProxyServer(sv)
            server.klass = Probe
            saved = sv.rpc_handler.proxy_server
            sv.rpc_handler.proxy_server = server
            try:
                peers = single.identifiers[1:]
                with single.ctx():
                    for peer in peers:
                        status = sv.context.instances[peer]
                        for state in (S.CHECKING, S.CHECKED, S.RUNNING):
                            status.state = state
                victim = rng.choice(peers)
                tick = (PublicationHeaders.TICK.value, {'when': 1.0, 'sequence_counter': 1})
                # warm up: proxies created, a few messages flow
                for _ in range(rng.randint(1, 3)):
                    server.push_publication(tick)
                REAL_SLEEP(0.02)
                # the XML-RPCs hang from now on: a backlog builds up behind the first one
                gate.clear()
                backlog = rng.randint(3, 8)
                for _ in range(backlog):
                    kind = rng.choice(['tick', 'start', 'stop', 'pub'])
                    if kind == 'tick':
                        server.push_publication(tick)
                    elif kind == 'pub':
                        server.push_publication((PublicationHeaders.PROCESS.value, {'name': 'x', 'group': 'g'}))
                    elif kind == 'start':
                        server.push_request(victim, (RequestHeaders.START_PROCESS.value, ('g:x', '')))
                    else:
                        server.push_request(victim, (RequestHeaders.STOP_PROCESS.value, ('g:x',)))
                self.count('messages_queued_behind_a_hanging_rpc', backlog)
                REAL_SLEEP(rng.choice([0.0, 0.01, 0.03]))
                # the peer is lost and fenced (real setter), the next publication closes its proxy
                with single.ctx():
                    status = sv.context.instances[victim]
                    status.state = S.FAILED
                    status.state = S.ISOLATED
                self.log('isolated', victim)
                closer = threading.Thread(target=server.push_publication, args=(tick,), name='closer')
                closer.start()
                REAL_SLEEP(rng.choice([0.01, 0.05]))
                # the hanging XML-RPC returns
                gate.set()
                closer.join(timeout=15.0)
                REAL_SLEEP(0.1)
                if closer.is_alive():
                    return [], 'the closing publication did not return'
                self.count('proxies_closed_on_isolation')
            finally:
                gate.set()
                server.stop()
                sv.rpc_handler.proxy_server = saved
            # -- offline oracle over the history
            with self.lock:
                history = list(self.history)
            stop_at = next((i for i, rec in enumerate(history) if rec[0] == 'stop_called' and rec[1] == victim), None)
            iso_at = next((i for i, rec in enumerate(history) if rec[0] == 'isolated' and rec[1] == victim), None)
            if stop_at is None or iso_at is None or stop_at < iso_at:
                return [], 'the proxy of the isolated peer was not stopped after the isolation'
            late_dequeues = [i for i, rec in enumerate(history) if i > stop_at and rec[0] == 'dequeue' and rec[1] == victim]
            late_sends = [rec for i, rec in enumerate(history)
                          if rec[0] == 'send' and rec[1] == victim and late_dequeues and i > late_dequeues[0]]
            self.count('histories_checked')
            self.count('history_events', len(history))
            # one more loop iteration is possible in the unchanged thread (stop flag tested just before stop())
            if len(late_dequeues) > 1 and len(late_sends) > 1:
                violations.append({'key': 'C13/thread:sent-to-an-isolated-peer-after-its-proxy-was-stopped',
                                   'msg': f'{len(late_dequeues)} messages were taken out of the queue of the proxy of '
                                          f'{victim} AFTER stop() had been called on it because the peer is ISOLATED, '
                                          f'and sent to it: {late_sends[:6]} (backlog {backlog}); history tail: '
                                          f'{history[stop_at - 2:stop_at + 12]}'})
            return violations, None
        finally:
            single.close()
