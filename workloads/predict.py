""" C19 workload: a generated cluster at rest in OPERATION with some applications / processes stopped; predictions
(test_start_application / test_start_process) are asked one to five times, then the real start is requested on the
same instance with the same strategy, every process starting normally. """
from supervisor.states import RUNNING_STATES

from vsim import gen
from vsim.cluster import TICK, Fault, peek, views, status_snapshot, snapshot_diff, vt
from vsim.sim import World, Runaway
from workloads.apps import Run as AppsRun


class Run(AppsRun):

    def execute(self):
        knobs, rng = self.knobs, self.rng
        w = self.world = World(self.scenario, seed=self.case['seed'], keep_events=False)
        self.violations = []
        self.rounds = []
        try:
            for monitor in self.monitors:
                monitor.attach(self)
            self.emissions = 0

            def emission(*a, **k):
                self.emissions += 1
            for name in ('send_start_process', 'send_stop_process', 'send_state_event', 'send_check_instance',
                         'force_process_state'):
                w.on_hook(name, emission)
            for spec in w.specs:
                w.at(w.now + rng.uniform(0.0, 1.0), w.start_instance, spec['nick'])
            if not self.wait_operation(60):
                self.count('not_formed')
                return self.conclude_predict()
            for _ in range(rng.choice(knobs.get('n_rounds', [1, 2, 3]))):
                self.one_round()
            return self.conclude_predict()
        except Runaway:
            self.count('runaway_cases')
            return self.violations
        finally:
            w.close()

    def conclude_predict(self):
        for monitor in self.monitors:
            monitor.finish(self)
            for name, value in monitor.counters.items():
                self.count(name, value)
        return self.violations

    def violate(self, key, msg):
        if len(self.violations) < 10:
            self.violations.append({'key': key, 'msg': msg, 'detail': {'case': self.describe()}})

    # -- one round ------------------------------------------------------------------------------------
    def at_rest(self):
        vws = views(self.world)
        return bool(vws) and all(v['state'] == 'OPERATION' and not v['starting_jobs'] and not v['stopping_jobs']
                                 for v in vws.values())

    def settle(self, ticks=40):
        for _ in range(ticks):
            self.world.run_for(TICK)
            if self.at_rest() and self.world.quiescent():
                return True
        return False

    def snapshot_all(self):
        w = self.world
        snap = {}
        for inst in w.live():
            snap[inst.nick] = status_snapshot(w, inst.nick)
            snap[inst.nick]['queued'] = {w.by_identifier.get(i): len(p.fifo)
                                         for i, p in inst.supvisors.rpc_handler.proxy_server.proxies.items()}
            snap[inst.nick]['deferred'] = len(inst.deferred)
        return snap

    def one_round(self):
        w, rng = self.world, self.rng
        live = [i.nick for i in w.live() if i.sd.options.mood >= 1]
        managed = [a for a, m in self.model.items() if m['managed']]
        if not live or not managed:
            return
        # something to start: stop an application or a few processes
        nick = rng.choice(live)
        mode = rng.choice(['application', 'application', 'process', 'processes'])
        app = rng.choice(managed)
        if mode == 'application':
            w.user_rpc(nick, 'supvisors.stop_application', app, False)
        else:
            names = [ns for ns in self.procs if ns.split(':')[0] == app]
            for ns in rng.sample(names, min(len(names), rng.randint(1, 3))):
                w.user_rpc(nick, 'supvisors.stop_process', ns, False)
        if not self.settle():
            self.count('rounds_not_settled')
            return
        # 'the same situation': no process is about to exit by itself (a wait_exit program of ANOTHER application that
        # exits in the middle of the real start changes the loads between the prediction and the later sequence steps)
        for _ in range(12):
            if not any(rec.get('death_at') is not None and not rec['dead']
                       for inst in w.live() for rec in inst.procs.values()):
                break
            w.run_for(TICK)
        else:
            self.count('rounds_not_settled')
            return
        asker = rng.choice([i.nick for i in w.live()])
        strategy = rng.choice(self.knobs.get('strategies') or gen.STARTING)
        if mode == 'application':
            method, args = 'test_start_application', (strategy, app)
            real, real_args = 'start_application', (strategy, app, False)
        else:
            stopped = [ns for ns in self.procs if ns.split(':')[0] == app and
                       not any(i.running_truth().get(ns) in RUNNING_STATES for i in w.live())]
            if not stopped:
                return
            target = rng.choice(stopped) if mode == 'process' or rng.random() < 0.5 else app + ':*'
            if target.endswith('*') and len(stopped) != len([ns for ns in self.procs if ns.split(':')[0] == app]):
                target = rng.choice(stopped)
            method, args = 'test_start_process', (strategy, target)
            real, real_args = 'start_process', (strategy, target, '', False)
        # purity (whatever the instances have to do by themselves at this instant is done first)
        for inst in w.live():
            inst.loop()
        before = self.snapshot_all()
        emitted = self.emissions
        predictions = []
        for _ in range(rng.randint(1, 5)):
            res = w.user_rpc(asker, 'supvisors.' + method, *args)
            predictions.append(res)
            self.count('predictions')
        after = self.snapshot_all()
        where = f'supvisors.{method}{args} x{len(predictions)} on {asker} at vt={vt(w)}'
        self.count('purity_checks')
        if predictions[0][0] == 'ok':
            self.count('purity_checks_with_prediction')
        if self.emissions != emitted:
            self.violate('C19/prediction-emits', f'{where}: requests / publications / forced states were emitted')
        for other in before:
            if before[other] != after.get(other):
                kind = 'asker' if other == asker else 'other-instance'
                diff = snapshot_diff(before[other], after.get(other, {}))
                field = 'inner-process-info' if diff and diff[0].startswith('get_all_inner_process_info') else 'status'
                self.violate(f'C19/prediction-changes-{field}', f'{where}: the status reported by {other} ({kind}) '
                             f'changed: {diff}')
                break
        if any(p[:2] != predictions[0][:2] for p in predictions[1:]) and predictions[0][0] == 'ok':
            self.violate('C19/repeated-predictions-differ', f'{where}: {[p[:2] for p in predictions]}')
        if predictions[0][0] != 'ok':
            self.count('predictions_refused')
            return
        # accuracy: the real start from the same situation
        tracker = self.monitors[0]
        n_before = len(tracker.requests)
        forced_before = len(tracker.forced)
        res = w.user_rpc(asker, 'supvisors.' + real, *real_args)
        self.settle()
        requests = [r for r in tracker.requests[n_before:] if r['sender'] == asker]
        forced = [f for f in tracker.forced[forced_before:] if f['sender'] == asker]
        self.count('accuracy_rounds')
        predicted = {f"{p['application_name']}:{p['process_name']}": p for p in predictions[0][1]}
        real_targets = {}
        for r in requests:
            real_targets.setdefault(r['namespec'], []).append(r['target_nick'])
        record = {'where': where, 'predicted': {ns: (p['state'], [w.by_identifier.get(i) for i in p['running_identifiers']])
                                                for ns, p in predicted.items()},
                  'real': real_targets, 'real_result': res[:2]}
        self.rounds.append(record)
        for namespec, p in predicted.items():
            self.count('process_predictions_compared')
            pred_targets = sorted(w.by_identifier.get(i) for i in p['running_identifiers'])
            got = sorted(set(real_targets.get(namespec, [])))
            if pred_targets != got:
                # a retry after a failed start, or a process that did not start normally, is out of the statement
                abnormal = any(r.get('resolved') in ('failed', 'given-up', 'exited-unexpected', 'target-lost')
                               for r in requests if r['namespec'] == namespec)
                if abnormal:
                    self.count('comparisons_skipped_abnormal_start')
                    continue
                mech = ''
                if real == 'start_process' and real_args[1].endswith(':*') and len(predicted) > 1:
                    # the real start_process('app:*') issues one Starter.start_process per process, each triggered at
                    # once (the first one whatever its start_sequence, the others queued behind it, non-distributed
                    # applications assigned call by call); the model plans them all in one go, then follows the
                    # start sequence
                    mech = ':wildcard-start-is-not-one-plan'
                self.violate('C19/prediction-differs-from-real-start' + mech,
                             f"{where}: {namespec} predicted {p['state']} on {pred_targets} "
                             f"({p['forced_reason']}), the real {real}{real_args} sent it to {got} (forced: "
                             f"{[(f['namespec'], f['reason']) for f in forced if f['namespec'] == namespec]}); "
                             f"all: {record}")
        extra = set(real_targets) - set(predicted)
        if extra:
            self.violate('C19/real-start-has-more-processes', f'{where}: the real start also requested {sorted(extra)}')
