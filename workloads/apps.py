""" Application workload: generated rules / Supervisor configurations / process behaviours; the cluster boots,
the Master distributes the applications, then a generated script issues user requests (start / stop / restart of
applications and processes, restart_sequence) on random instances, process kills, duplicates and instance losses.

Used by C03, C04, C05, C06, C09, C10, C12 (each with its own knobs and monitors).
"""
import random

from supervisor.states import RUNNING_STATES

from vsim import gen
from vsim.cluster import TICK, views, groups, vt, ident, peek
from vsim.sim import World, Runaway, Livelock

BEHAVIOURS = ['normal'] * 6 + ['slow_stop', 'stubborn', 'crash_early', 'backoff_then_run', 'exit_expected',
                                'exit_unexpected', 'fork_error', 'no_file', 'slow_start']


def make_behaviour(rng, kind, prog):
    startsecs = prog.get('startsecs', 1)
    if kind == 'normal':
        return [{}]
    if kind == 'slow_stop':
        return [{'term': round(rng.uniform(0.5, 4.0), 2)}]
    if kind == 'stubborn':
        return [{'term': 'ignore'}]
    if kind == 'immortal':
        return [{'term': 'ignore', 'kill': 'ignore'}]
    if kind == 'crash_early':
        return [{'exit_after': round(rng.uniform(0.0, max(0.1, startsecs * 0.8)), 2), 'exit_code': 1}]
    if kind == 'backoff_then_run':
        k = rng.randint(1, 2)
        return [{'exit_after': round(rng.uniform(0.0, max(0.1, startsecs * 0.8)), 2), 'exit_code': 1}] * k + [{}]
    if kind == 'exit_expected':
        return [{'exit_after': round(startsecs + rng.uniform(0.5, 8.0), 2), 'exit_code': 0}]
    if kind == 'exit_unexpected':
        return [{'exit_after': round(startsecs + rng.uniform(0.5, 8.0), 2), 'exit_code': 1}]
    if kind == 'fork_error':
        return [{'fork_error': True}] * rng.randint(1, 5) + [{}]
    if kind == 'no_file':
        return [{'no_file': True}]
    if kind == 'slow_start':
        return [{}]
    return [{}]


def make_scenario(rng, knobs):
    specs = gen.gen_topology(rng, knobs.get('n_min', 2), knobs.get('n_max', 4), knobs.get('max_nodes', 3))
    options = gen.gen_options(rng, specs, synchro=knobs.get('synchro', ['LIST', 'TIMEOUT']),
                              fence=knobs.get('fence'))
    options['supvisors_failure_strategy'] = 'CONTINUE'
    for key, value in knobs.get('options', {}).items():
        options[key] = value
    model, groups_by_nick = gen.gen_apps(rng, specs, **knobs.get('apps', {}))
    for spec in specs:
        spec['groups'] = groups_by_nick[spec['nick']]
        if knobs.get('disable_p') and rng.random() < knobs['disable_p']:
            progs = [p for g in spec['groups'].values() for p in g]
            if progs:
                spec['disabled'] = [rng.choice(progs)]
    behaviours = {}
    kinds = knobs.get('behaviours', BEHAVIOURS)
    for app_name, app in model.items():
        for prog_name, prog in app['programs'].items():
            for name in gen.process_names(prog_name, prog):
                namespec = f'{app_name}:{name}'
                if prog.get('wait_exit'):
                    kind = rng.choice(knobs.get('wait_exit_behaviours') or
                                      ['exit_expected'] * 4 + ['exit_unexpected', 'normal', 'crash_early'])
                else:
                    kind = rng.choice(kinds)
                if kind in ('no_file', 'crash_early', 'fork_error', 'exit_unexpected') and app['managed'] and \
                        prog.get('running_failure_eff') in ('RESTART_APPLICATION', 'RESTART_PROCESS') and \
                        rng.random() < 0.85:
                    kind = 'normal'   # a program that always fails with a RESTART strategy is a restart storm
                per_instance = rng.random() < 0.2 and not knobs.get('same_behaviour_everywhere')
                for spec in specs:
                    k = rng.choice(kinds) if per_instance else kind
                    behaviours[f"{spec['nick']}/{namespec}"] = make_behaviour(rng, k, prog)
                prog.setdefault('behaviour', {})[name] = kind
    scenario = {'instances': specs, 'options': options, 'model': model, 'rules_xml': gen.rules_xml(model),
                'sched': gen.gen_sched(rng, specs, knobs.get('profiles')), 'behaviours': behaviours}
    if knobs.get('handshake_skew'):
        # the XML-RPCs of a handshake take time (see workloads/membership.py)
        scenario['sched'] = dict(scenario['sched'], handshake_skew=knobs['handshake_skew'])
    return scenario


ACTIONS = ['start_application', 'stop_application', 'restart_application', 'start_process', 'stop_process',
           'restart_process', 'restart_sequence', 'kill_process', 'crash', 'dup', 'wait']


class Run:
    def __init__(self, case, knobs, monitors):
        self.case = case
        self.rng = random.Random(case['seed'])
        self.knobs = knobs
        self.runtime_disabled = {}   # (nick, program) -> (time, disabled) for programs disabled / enabled at run time
        self.scenario = make_scenario(self.rng, knobs)
        self.model = self.scenario['model']
        self.procs = gen.model_processes(self.model)
        self.monitors = monitors
        self.world = None
        self.actions = []
        self.counters = {}
        self.outcome = {}
        self.lost = set()
        self.on_tick = []
        self.closing = None
        self.master_at_closing = None

    def count(self, name, n=1):
        self.counters[name] = self.counters.get(name, 0) + n

    # -- model helpers ------------------------------------------------------------------------------
    def prog_of(self, namespec):
        app_name, prog_name = self.procs[namespec]
        return self.model[app_name], self.model[app_name]['programs'][prog_name]

    def master(self):
        w = self.world
        vws = views(w)
        masters = [v['master'] for v in vws.values() if v['master']]
        if not masters:
            return None
        best = max(set(masters), key=masters.count)
        return w.by_identifier.get(best)

    def wait_operation(self, max_ticks=60):
        """ Run until every live instance is in OPERATION without jobs (or the bound is reached). """
        w = self.world
        for _ in range(max_ticks):
            w.run_for(TICK)
            vws = views(w)
            for cb in self.on_tick:
                cb(vws)
            if vws and all(v['state'] == 'OPERATION' and not v['starting_jobs'] and not v['stopping_jobs']
                           for v in vws.values()):
                return True
        return False

    # -- script -------------------------------------------------------------------------------------
    def do_action(self, kind):
        w, rng = self.world, self.rng
        live = [i.nick for i in w.live() if i.sd.options.mood >= 1]
        if not live:
            return
        nick = rng.choice(live)
        if self.knobs.get('on_master_p') and rng.random() < self.knobs['on_master_p'] and self.master() in live:
            nick = self.master()
        if self.knobs.get('off_master_p') and rng.random() < self.knobs['off_master_p']:
            others = [n for n in live if n != self.master()]
            nick = rng.choice(others) if others else nick
        rec = {'vt': vt(w), 'kind': kind, 'on': nick}
        strategies = gen.STARTING
        managed = [a for a, m in self.model.items() if m['managed']]
        all_apps = list(self.model)
        namespecs = list(self.procs)
        if kind in ('start_application', 'restart_application') and managed:
            app = rng.choice(managed)
            rec['args'] = (rng.choice(strategies), app, False)
            rec['res'] = w.user_rpc(nick, f'supvisors.{kind}', *rec['args'])
        elif kind == 'stop_application' and managed:
            app = rng.choice(managed)
            rec['args'] = (app, False)
            rec['res'] = w.user_rpc(nick, 'supvisors.stop_application', *rec['args'])
        elif kind in ('start_process', 'restart_process'):
            namespec = rng.choice(namespecs) if rng.random() < 0.85 else rng.choice(all_apps) + ':*'
            rec['args'] = (rng.choice(strategies), namespec, '', False)
            rec['res'] = w.user_rpc(nick, f'supvisors.{kind}', *rec['args'])
        elif kind == 'stop_process':
            namespec = rng.choice(namespecs) if rng.random() < 0.85 else rng.choice(all_apps) + ':*'
            rec['args'] = (namespec, False)
            rec['res'] = w.user_rpc(nick, 'supvisors.stop_process', *rec['args'])
        elif kind == 'restart_sequence':
            rec['args'] = (False,)
            rec['res'] = w.user_rpc(nick, 'supvisors.restart_sequence', False)
        elif kind == 'kill_process':
            rec['res'] = self.kill_some_process()
        elif kind == 'crash':
            if len(live) > 1:
                victim = rng.choice(live)
                if self.knobs.get('keep_master') and victim == self.master():
                    victim = next((n for n in live if n != victim), None)
                if victim:
                    rec['on'] = victim
                    w.crash_instance(victim)
                    self.lost.add(victim)
        elif kind == 'restart':
            if len(live) > 1:
                victim = rng.choice(live)
                # a restart that takes running processes away is the interesting one
                busy = [n for n in live if any(st in RUNNING_STATES for st in w.instances[n].running_truth().values())]
                if busy and rng.random() < 0.6:
                    victim = rng.choice(busy)
                rec['on'] = victim
                rec['down'] = round(rng.choice([rng.uniform(0.2, 4.0), rng.uniform(4.0, 15.0), rng.uniform(15, 40)]), 2)
                w.crash_instance(victim)
                spec = w.spec_of(victim)
                if self.knobs.get('host_reboot_p') and rng.random() < self.knobs['host_reboot_p'] and \
                        sum(1 for s in w.specs if s['node'] == spec['node']) == 1:
                    # the whole host reboots (the instance is alone on its node): its monotonic clock starts again
                    # near zero when the instance comes back
                    def reboot(victim=victim, spec=spec):
                        spec['mono_off'] = round(-(w.now - 1_700_000_000.0) + rng.uniform(5.0, 90.0), 3)
                        w.start_instance(victim)
                    w.at(w.now + rec['down'], reboot)
                    rec['host_reboot'] = True
                    self.count('host_reboots')
                else:
                    w.at(w.now + rec['down'], w.start_instance, victim)
                self.reboot_until = max(getattr(self, 'reboot_until', 0.0), w.now + rec['down'])
        elif kind == 'disable_during_join':
            # an instance Y restarts; while it still has a peer X in CHECKED (handshake done, not activated yet) and X
            # is in OPERATION, a program is disabled on X: the event reaches Y about a peer that is not RUNNING yet
            if len(live) > 1:
                master = self.master()
                y = rng.choice([n for n in live if n != master] or live)
                rec['on'] = y
                w.crash_instance(y)
                w.at(w.now + rng.uniform(0.5, 6.0), w.start_instance, y)
                deadline = w.now + 60.0
                done = False
                while w.now < deadline and not done:
                    w.run_for(0.05)
                    yi = w.instances.get(y)
                    if yi is None or not yi.alive or not yi.http_open or yi.sd.options.mood < 1:
                        continue
                    for x in [n for n in live if n != y and w.instances[n].alive]:
                        try:
                            seen = peek(w, y, 'supvisors.get_instance_info', ident(w, x))[0]['statename']
                            xstate = peek(w, x, 'supvisors.get_supvisors_state')['fsm_statename']
                            # X publishes its events to Y once it has admitted it
                            back = peek(w, x, 'supvisors.get_instance_info', ident(w, y))[0]['statename']
                        except Exception:
                            continue
                        if back not in ('CHECKED', 'RUNNING'):
                            continue
                        progs = sorted({p for g in w.spec_of(x)['groups'].values() for p in g} -
                                       set(w.spec_of(x).get('disabled') or []))
                        if seen == 'CHECKED' and xstate == 'OPERATION' and progs:
                            prog = rng.choice(progs)
                            rec['res'] = w.user_rpc(x, 'supvisors.disable', prog, False)
                            rec['disabled'] = (x, prog)
                            if rec['res'][0] == 'ok':
                                self.runtime_disabled[(x, prog)] = (w.now, True)
                                self.count('programs_disabled_on_a_peer_seen_checked')
                            done = True
                            break
                self.reboot_until = max(getattr(self, 'reboot_until', 0.0), w.now + 5.0)
        elif kind == 'start_disabled_program':
            # the instance that re-joined is asked to start the program that was disabled meanwhile on its peer
            last = next((a for a in reversed(self.actions) if a.get('disabled')), None)
            if last and w.instances[last['on']].alive and w.instances[last['on']].http_open:
                x, prog = last['disabled']
                names = [ns for ns, (a, p) in self.procs.items() if p == prog]
                if names:
                    rec['on'] = last['on']
                    rec['args'] = (rng.choice(strategies), rng.choice(names), '', False)
                    rec['res'] = w.user_rpc(last['on'], 'supvisors.start_process', *rec['args'])
        elif kind == 'update_numprocs':
            # dynamic change of numprocs on one Supervisor (programs declared with numprocs > 1 carry %(process_num))
            progs = sorted({(g, p) for g, ps in w.spec_of(nick)['groups'].items() for p in ps})
            if progs:
                group, prog = rng.choice(progs)
                multi = [gp for gp in progs if self.model[gp[0]]['programs'][gp[1]].get('numprocs', 1) > 1]
                if multi and rng.random() < 0.75:
                    group, prog = rng.choice(multi)
                value = rng.choice([1, 1, 2, 3, 4, 4])
                if rng.random() < 0.06:
                    value = rng.choice([0, -1, 'two', 2.5])
                rec['args'] = (prog, value, rng.random() < 0.5, rng.random() < 0.3)
                # the processes that this change may create
                if self.model[group]['programs'][prog].get('numprocs', 1) > 1:
                    for g, ps in w.spec_of(nick)['groups'].items():
                        if prog in ps:
                            for i in range(1, 5):
                                self.procs.setdefault(f'{g}:{prog}_{i:02d}', (g, prog))
                rec['res'] = w.user_rpc(nick, 'supvisors.update_numprocs', *rec['args'])
                self.count('numprocs_requests')
                if rec['res'][0] in ('ok', 'deferred'):
                    self.count('numprocs_requests_served')
        elif kind == 'refused_numprocs_then_group_added_again':
            # a change of numprocs refused for a program that does not support it, then the group is removed and added
            # again on the same Supervisor, and the program disabled / enabled: a refused request must have no effect
            single = sorted({(g, p) for g, ps in w.spec_of(nick)['groups'].items() for p in ps
                             if self.model[g]['programs'][p].get('numprocs', 1) == 1})
            if single:
                group, prog = rng.choice(single)
                rec['args'] = (prog, rng.choice([2, 3]), False, False)
                rec['res'] = w.user_rpc(nick, 'supvisors.update_numprocs', *rec['args'])
                self.count('numprocs_requests')
                w.run_for(rng.choice([0.0, 0.5, 3.0]))
                inst = w.instances[nick]
                if inst.alive and inst.http_open and group in inst.sd.process_groups:
                    w.user_rpc(nick, 'supervisor.stopProcessGroup', group, False)
                    w.run_for(rng.choice([1.0, 3.0, 8.0]))
                    if inst.alive and inst.http_open and \
                            w.user_rpc(nick, 'supervisor.removeProcessGroup', group)[0] == 'ok':
                        self.count('groups_removed')
                        w.run_for(rng.choice([0.0, 0.5, 3.0]))
                        if w.user_rpc(nick, 'supervisor.addProcessGroup', group)[0] == 'ok':
                            self.count('groups_added_again')
                            self.count('groups_added_again_after_a_refused_numprocs_change')
                            w.run_for(rng.choice([0.0, 0.5, 3.0]))
                            for method in rng.sample(['disable', 'enable'], 2):
                                w.user_rpc(nick, 'supvisors.' + method, prog, False)
                                w.run_for(0.5)
        elif kind == 'stop_then_decrease':
            # an application is being stopped (several stop_sequence levels, slow stops) when the numprocs of one of
            # its programs is decreased on the instances that run it: processes of the lower levels disappear from
            # these instances while the stop plan still holds commands for them
            multi = {}
            for inst in w.live():
                for ns, st in inst.running_truth().items():
                    if st in RUNNING_STATES and ns in self.procs:
                        app_name, prog = self.procs[ns]
                        if self.model[app_name]['managed'] and \
                                self.model[app_name]['programs'][prog].get('numprocs', 1) > 1:
                            multi.setdefault(app_name, set()).add((inst.nick, prog))
            if multi:
                app_name = rng.choice(sorted(multi))
                rec['args'] = (app_name, False)
                rec['res'] = w.user_rpc(nick, 'supvisors.stop_application', app_name, False)
                w.run_for(rng.choice([0.0, 0.05, 0.3, 1.0]))
                for host, prog in sorted(multi[app_name]):
                    hinst = w.instances[host]
                    if hinst.alive and hinst.http_open:
                        for g, ps in w.spec_of(host)['groups'].items():
                            if prog in ps:
                                for i in range(1, 5):
                                    self.procs.setdefault(f'{g}:{prog}_{i:02d}', (g, prog))
                        res = w.user_rpc(host, 'supvisors.update_numprocs', prog, 1, False, rng.random() < 0.5)
                        self.count('numprocs_requests')
                        if res[0] in ('ok', 'deferred'):
                            self.count('numprocs_requests_served')
                            self.count('numprocs_decreased_during_a_stop')
                        w.run_for(rng.choice([0.0, 0.05, 0.5]))
        elif kind == 'start_application_then_process':
            # a non-distributed application is being started (several start_sequence levels, slow starts) when one
            # more process of the same application is requested on the same instance: it joins the job in progress
            restricted = [a for a in managed if self.model[a].get('distribution', 'ALL_INSTANCES') != 'ALL_INSTANCES']
            if restricted:
                app = rng.choice(restricted)
                strategy = rng.choice(strategies)
                rec['args'] = (strategy, app, False)
                if any(i.running_truth().get(ns) in RUNNING_STATES for i in w.live() for ns in namespecs
                       if ns.split(':')[0] == app):
                    # the application is stopped first
                    w.user_rpc(nick, 'supvisors.stop_application', app, False)
                    for _ in range(8):
                        w.run_for(TICK)
                        if not any(i.running_truth().get(ns) not in (None, 0, 100, 200)
                                   for i in w.live() for ns in namespecs if ns.split(':')[0] == app):
                            break
                rec['res'] = w.user_rpc(nick, 'supvisors.start_application', *rec['args'])
                if rec['res'][0] == 'ok':
                    self.count('non_distributed_applications_started_by_request')
                names = [ns for ns in namespecs if ns.split(':')[0] == app]
                for _ in range(rng.randint(1, 2)):
                    w.run_for(rng.choice([0.05, 0.3, 1.0, 2.5]))
                    if names and w.instances[nick].alive and w.instances[nick].http_open:
                        res = w.user_rpc(nick, 'supvisors.start_process', rng.choice(strategies), rng.choice(names),
                                         '', False)
                        if res[0] == 'ok':
                            self.count('processes_added_to_a_non_distributed_job')
        elif kind == 'queued_process_then_application':
            # on ONE instance: a (slow) application is being started, then a single process of another application is
            # requested (it waits behind), then that other application itself is requested before the Starter is free
            if len(managed) >= 2:
                first = rng.choice(managed)
                second = rng.choice([a for a in managed if a != first])
                names = [ns for ns in namespecs if ns.split(':')[0] == second]
                waiters = [ns for ns in names if self.prog_of(ns)[1].get('wait_exit')]
                w.user_rpc(nick, 'supvisors.restart_application', rng.choice(strategies), first, False)
                w.run_for(rng.choice([0.05, 0.3, 1.0]))
                target = rng.choice(waiters or names)
                rec['args'] = (first, target, second)
                res1 = w.user_rpc(nick, 'supvisors.' + rng.choice(['start_process', 'restart_process']),
                                  rng.choice(strategies), target, '', False)
                w.run_for(rng.choice([0.0, 0.05, 0.3]))
                rec['res'] = w.user_rpc(nick, 'supvisors.' + rng.choice(['start_application', 'restart_application']),
                                        rng.choice(strategies), second, False)
                if res1[0] == 'ok' and rec['res'][0] == 'ok':
                    self.count('applications_requested_behind_a_queued_process_of_theirs')
        elif kind == 'stop_duplicated_then_crash':
            # a process runs on two instances (conflict left to the user); its application is stopped - both copies are
            # slow to stop - and one of the two hosts, not the Master, is lost while the stops are pending
            dup = self.duplicate_some_process()
            rec['dup'] = dup
            if dup and dup[3] == 'ok':
                namespec, host_a, host_b = dup[:3]
                app = namespec.split(':')[0]
                w.run_for(rng.choice([4.0, 8.0, 12.0]))
                master = self.master()
                requester = rng.choice(live)
                rec['on'] = requester
                rec['args'] = (app, False)
                rec['res'] = w.user_rpc(requester, 'supvisors.stop_application', app, False)
                w.run_for(rng.choice([0.2, 0.6, 1.5, 3.0]))
                victims = [h for h in (host_a, host_b) if h not in (master, requester) and w.instances[h].alive]
                if victims and rec['res'][0] == 'ok':
                    victim = rng.choice(victims)
                    w.crash_instance(victim)
                    self.lost.add(victim)
                    rec['crashed'] = victim
                    self.count('hosts_of_a_copy_lost_while_its_application_is_stopped')
        elif kind in ('enable', 'disable'):
            progs = sorted({p for ps in w.spec_of(nick)['groups'].values() for p in ps})
            if progs:
                prog = rng.choice(progs)
                rec['args'] = (prog, rng.random() < 0.5)
                rec['res'] = w.user_rpc(nick, 'supvisors.' + kind, *rec['args'])
                if rec['res'][0] in ('ok', 'deferred'):
                    self.runtime_disabled[(nick, prog)] = (w.now, kind == 'disable')
                    self.count('programs_%sd_at_run_time' % kind)
        elif kind == 'remove_group':
            # the group is stopped then removed from one Supervisor (supervisorctl remove)
            present = sorted(w.instances[nick].sd.process_groups)
            if present:
                group = rng.choice(present)
                rec['args'] = (group,)
                w.user_rpc(nick, 'supervisor.stopProcessGroup', group, False)
                w.run_for(rng.choice([0.0, 0.3, 2.0, 6.0]))
                if w.instances[nick].alive and w.instances[nick].http_open:
                    rec['res'] = w.user_rpc(nick, 'supervisor.removeProcessGroup', group)
                    if rec['res'][0] == 'ok':
                        self.count('groups_removed')
        elif kind == 'add_group':
            # a group removed earlier is added again (supervisorctl add)
            absent = sorted(set(w.spec_of(nick)['groups']) - set(w.instances[nick].sd.process_groups))
            if not absent:
                gone = [(n, g) for n in live for g in sorted(set(w.spec_of(n)['groups']) -
                                                                set(w.instances[n].sd.process_groups))]
                if gone:
                    nick, group = rng.choice(gone)
                    rec['on'] = nick
                    absent = [group]
            if absent:
                group = rng.choice(absent)
                rec['args'] = (group,)
                rec['res'] = w.user_rpc(nick, 'supervisor.addProcessGroup', group)
                if rec['res'][0] == 'ok':
                    self.count('groups_added_again')
        elif kind == 'dup':
            rec['res'] = self.duplicate_some_process()
        elif kind == 'dup_pair':
            # a stopped process of a managed application is started directly on two (or three) instances at (nearly)
            # the same instant: copies of the same age
            names = [ns for ns in namespecs if self.model[ns.split(':')[0]]['managed']]
            rng.shuffle(names)
            rec['res'] = []
            for ns in names:
                if any(i.running_truth().get(ns) not in (None, 0, 100, 200) for i in w.live()):
                    continue
                holders = [i for i in w.live() if i.sd.options.mood >= 1 and ns in i.running_truth()]
                if len(holders) >= 2:
                    for inst in rng.sample(holders, min(len(holders), rng.choice([2, 2, 3]))):
                        rec['res'].append((ns, inst.nick, w.user_rpc(inst.nick, 'supervisor.startProcess', ns, False)[0]))
                        w.run_for(rng.choice([0.0, 0.0, 0.01, 0.2]))
                    self.count('pairs_of_copies_started_together')
                    break
        elif kind == 'dup_then_kill_copy':
            # a second copy of a running process is started directly on another instance, then THAT copy dies (killed:
            # unexpected exit, or FATAL if it was still starting) while the first one keeps running
            dup = self.duplicate_some_process()
            rec['dup'] = dup
            if dup and dup[3] == 'ok':
                namespec, first, second = dup[:3]
                w.run_for(rng.choice([0.3, 1.5, 4.0, 8.0]))
                inst2 = w.instances[second]
                pids = [pid for pid, r in inst2.procs.items() if r['namespec'] == namespec and not r['dead']
                        and r.get('death_at') is None]
                if pids and inst2.alive:
                    inst2._schedule_death(pids[0], w.now, 9)
                    rec['copy_killed'] = (namespec, first, second, w.now)
                    self.count('copies_killed_while_another_copy_runs')
        elif kind == 'dup_unmanaged':
            # a process of an unmanaged application started directly on two instances: not a conflict for Supvisors
            names = [ns for ns in self.procs if not self.model[ns.split(':')[0]]['managed']]
            rng.shuffle(names)
            rec['res'] = []
            for ns in names:
                holders = [i for i in w.live() if i.sd.options.mood >= 1 and ns in i.running_truth()]
                if len(holders) >= 2:
                    for inst in rng.sample(holders, 2):
                        if inst.running_truth()[ns] not in RUNNING_STATES:
                            rec['res'].append((ns, inst.nick, w.user_rpc(inst.nick, 'supervisor.startProcess', ns,
                                                                         False)[0]))
                    break
        elif kind == 'multi_dup':
            # several simultaneous conflicts, preferably inside one application
            first = self.duplicate_some_process()
            rec['res'] = [first]
            if first:
                app = first[0].split(':')[0]
                for _ in range(rng.randint(1, 3)):
                    w.run_for(rng.choice([0.0, 0.0, 0.01, 0.3]))
                    rec['res'].append(self.duplicate_some_process(app=app if rng.random() < 0.8 else None,
                                                                  exclude={r[0] for r in rec['res'] if r}))
        elif kind == 'partition':
            if len(live) > 1:
                side = rng.sample(live, rng.randint(1, len(live) - 1))
                rest = [s['nick'] for s in w.specs if s['nick'] not in side]
                rec['side'] = sorted(side)
                rec['duration'] = round(rng.uniform(20.0, 45.0), 2)
                w.partition(side, rest)

                def heal(side=side, rest=rest):
                    for a in side:
                        for b in rest:
                            w.heal_link(a, b)
                w.at(w.now + rec['duration'], heal)
                self.reboot_until = max(getattr(self, 'reboot_until', 0.0), w.now + rec['duration'])
        elif kind == 'burst':
            # a burst of process activity: several direct Supervisor starts / stops on random instances
            for _ in range(rng.randint(2, 6)):
                target = rng.choice(live)
                inst = w.instances[target]
                names = list(inst.running_truth())
                if names:
                    ns = rng.choice(names)
                    if inst.running_truth()[ns] in RUNNING_STATES:
                        w.user_rpc(target, 'supervisor.stopProcess', ns, False)
                    elif not self.model[ns.split(':')[0]]['managed'] or not self.knobs.get('dup_managed_only'):
                        if not any(i.running_truth().get(ns) in RUNNING_STATES for i in w.live()) or \
                                not self.model[ns.split(':')[0]]['managed']:
                            w.user_rpc(target, 'supervisor.startProcess', ns, False)
                w.run_for(rng.choice([0.0, 0.01, 0.1, 0.5]))
        self.actions.append(rec)
        w.emit('action', a={k: v for k, v in rec.items() if k != 'res'},
               ok=(isinstance(rec.get('res'), tuple) and rec['res'][0] == 'ok'))
        return rec

    def kill_some_process(self):
        w = self.world
        candidates = [(inst, pid) for inst in w.live() for pid, rec in inst.procs.items()
                      if not rec['dead'] and rec.get('death_at') is None]
        if not candidates:
            return False
        inst, pid = self.rng.choice(candidates)
        inst._schedule_death(pid, w.now, 9)
        return inst.procs[pid]['namespec']

    def duplicate_some_process(self, app=None, exclude=()):
        w = self.world
        running = []
        for inst in w.live():
            for namespec, state in inst.running_truth().items():
                if state in RUNNING_STATES and namespec not in exclude and \
                        (app is None or namespec.split(':')[0] == app):
                    running.append((inst.nick, namespec))
        self.rng.shuffle(running)
        for nick, namespec in running:
            if self.knobs.get('dup_managed_only') and not self.model[namespec.split(':')[0]]['managed']:
                continue
            others = [i for i in w.live() if i.nick != nick and i.sd.options.mood >= 1
                      and i.running_truth().get(namespec) is not None
                      and i.running_truth()[namespec] not in RUNNING_STATES]
            if others:
                other = self.rng.choice(others)
                res = w.user_rpc(other.nick, 'supervisor.startProcess', namespec, False)
                return (namespec, nick, other.nick, res[0])
        return False

    def execute(self):
        knobs = self.knobs
        w = self.world = World(self.scenario, seed=self.case['seed'], use_publisher=knobs.get('publisher', False),
                               keep_events=knobs.get('keep_events', False))
        try:
            for monitor in self.monitors:
                monitor.attach(self)
            self.injected = []
            if knobs.get('crash_on_request_p'):
                from vsim.faults import crash_target_on_request
                crash_target_on_request(self, knobs['crash_on_request_p'], **knobs.get('crash_on_request_kw', {}))
            if knobs.get('lost_requests_p'):
                from vsim.faults import drop_start_requests
                drop_start_requests(self, self.rng.choice(knobs['lost_requests_p']))
            if knobs.get('drop_p'):
                from vsim.faults import drop_process_publications
                drop_process_publications(self, self.rng.choice(knobs['drop_p']))
            stagger = self.rng.choice(knobs.get('stagger', [0.0, 1.0, 4.0]))
            for spec in w.specs:
                w.at(w.now + self.rng.uniform(0.0, stagger), w.start_instance, spec['nick'])
            # formation + automatic distribution (actions may start before it ends)
            early = self.rng.random() < knobs.get('early_p', 0.2)
            if early:
                w.run_for(self.rng.uniform(20.0, 60.0))
            else:
                self.outcome['formed'] = self.wait_operation(knobs.get('formation_ticks', 60))
            n_actions = self.rng.choice(knobs.get('n_actions', [0, 1, 2, 3, 4, 6]))
            kinds = knobs.get('actions', ACTIONS)
            for _ in range(n_actions):
                kind = self.rng.choice(kinds)
                self.do_action(kind)
                gap = self.rng.choice(knobs.get('gaps', [0.0, 0.05, 0.5, 2.0, 5.0, 12.0, 30.0]))
                w.run_for(gap)
            for kind in knobs.get('then', ()):
                self.do_action(kind)
                w.run_for(self.rng.choice(knobs.get('gaps', [0.0, 0.5, 2.0])))
            if getattr(self, 'reboot_until', 0.0) > w.now:
                w.run_until(self.reboot_until + 1.0)
            # quiet period: until quiescence with OPERATION everywhere, bounded
            if knobs.get('closing_at_once'):
                # the closing request arrives while the last user request is still being carried out
                w.run_for(self.rng.choice(knobs['closing_at_once']))
                self.outcome['settled'] = False
            else:
                self.outcome['settled'] = self.wait_operation(knobs.get('settle_ticks', 80))
            for kind in knobs.get('after_settling', ()):
                self.do_action(kind)
                w.run_for(4 * TICK)
                self.outcome['settled'] = self.wait_operation(knobs.get('settle_ticks', 80))
            w.run_for(2 * TICK)
            self.outcome['quiescent'] = w.quiescent()
            self.outcome['views'] = views(w)
            if self.rng.random() < knobs.get('closing_p', 0.0):
                self.do_closing()
            return self.conclude()
        except Runaway:
            # e.g. a restart storm (a program that cannot be spawned with a RESTART strategy): the online monitors
            # have seen everything that happened; the end-of-run oracles are not evaluated
            self.count('runaway_cases')
            w.max_steps = w.max_start_requests = 10 ** 9
            return [v for monitor in self.monitors for v in monitor.violations]
        except Livelock as exc:
            self.count('livelock_cases')
            for monitor in self.monitors:
                monitor.on_livelock(self, exc)
            return [v for monitor in self.monitors for v in monitor.violations]
        finally:
            w.close()

    def do_closing(self):
        """ supvisors.restart / shutdown requested on a random instance; optionally a non-Master is lost meanwhile. """
        w, rng = self.world, self.rng
        w.auto_reboot = False
        live = [i.nick for i in w.live() if i.sd.options.mood >= 1]
        vws = views(w)
        master = self.master()
        if not live or master is None or master not in live:
            return
        comps, cliques = groups(w, vws)
        comp = next((c for c, ok in zip(comps, cliques) if master in c and ok), None)
        if comp is None or any(vws[n]['state'] != 'OPERATION' or vws[n]['master'] != vws[master]['master']
                               for n in comp):
            return
        kind = rng.choice(['restart', 'shutdown'])
        on = rng.choice(comp)
        self.master_at_closing = master
        self.closing = {'kind': kind, 'on': on, 'master': master, 'members': list(comp),
                        'incs': {n: w.instances[n].inc for n in comp}, 'vt': vt(w), 'crashed': []}
        res = w.user_rpc(on, 'supvisors.' + kind)
        self.closing['accepted'] = res[0] == 'ok'
        self.closing['res'] = res[:2]
        if rng.random() < self.knobs.get('second_closing_p', 0.0):
            # a second restart / shutdown request while the first one is being carried out
            w.run_for(rng.choice([0.0, 0.05, 0.5, 1.5, 4.0]))
            members = [n for n in comp if w.instances[n].alive and w.instances[n].http_open]
            if members:
                second = {'kind': rng.choice(['restart', 'shutdown']), 'on': rng.choice(members), 'vt': vt(w)}
                second['res'] = w.user_rpc(second['on'], 'supvisors.' + second['kind'])[:2]
                self.closing['second'] = second
        if rng.random() < self.knobs.get('closing_crash_p', 0.25):
            others = [n for n in comp if n != master and n != on]   # the requester must live to forward the order
            if others:
                w.run_for(rng.choice([0.0, 0.2, 1.0, 3.0]))
                victim = rng.choice(others)
                if w.instances[victim].alive:
                    w.crash_instance(victim)
                    self.closing['crashed'].append(victim)
        for _ in range(self.knobs.get('closing_ticks', 60)):
            w.run_for(TICK)
            if not [i for i in w.live() if i.nick in comp]:
                break
        self.closing['all_exited'] = not [i for i in w.live() if i.nick in comp]

    def conclude(self):
            violations = []
            for monitor in self.monitors:
                violations.extend(monitor.finish(self) or [])
                for name, value in monitor.counters.items():
                    self.count(name, value)
            return violations

    def describe(self):
        scn = self.scenario
        return {'instances': [(s['nick'], s['node'], s['port']) for s in scn['instances']],
                'options': scn['options'], 'sched': scn['sched'].get('name'),
                'apps': {a: {'managed': m['managed'],
                             **({k: m[k] for k in ('start_sequence', 'stop_sequence_eff', 'distribution', 'identifiers',
                                                   'starting_failure_strategy', 'running_failure_strategy')}
                                if m['managed'] else {}),
                             'programs': {p: {k: v for k, v in pr.items()
                                              if k in ('numprocs', 'start_sequence', 'stop_sequence_eff',
                                                       'required_eff', 'wait_exit', 'expected_loading',
                                                       'identifiers', 'startsecs', 'stopwaitsecs', 'behaviour',
                                                       'running_failure_eff', 'starting_failure_eff')}
                                          for p, pr in m['programs'].items()}}
                         for a, m in scn['model'].items()},
                'groups': {s['nick']: {g: list(p) for g, p in s['groups'].items()} for s in scn['instances']},
                'disabled': {s['nick']: s.get('disabled') for s in scn['instances'] if s.get('disabled')},
                'injected_faults': getattr(self, 'injected', []), 'closing': self.closing,
                'actions': [{k: v for k, v in a.items() if k != 'res'} |
                            {'res': (a['res'][:2] if isinstance(a.get('res'), tuple) else a.get('res'))}
                            for a in self.actions]}

    def shape(self):
        scn = self.scenario
        return '|'.join([str(len(scn['instances'])), str(len({s['node'] for s in scn['instances']})),
                         scn['options'].get('starting_strategy', ''), scn['options'].get('conciliation_strategy', ''),
                         scn['sched'].get('name', ''),
                         ','.join(sorted({m.get('distribution', 'U') for m in scn['model'].values()})),
                         ','.join(a['kind'] for a in self.actions)])
