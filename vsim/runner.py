""" Check runner: shards the cases of a monitor module over worker processes, aggregates verdicts and evidence.

A monitor module (monitors/cNN_*.py) provides:
    PROPERTY : str                     property id
    LEVEL    : str                     evidence level (exploration | fault_enumeration | ...)
    RULE     : str                     how cases are generated and what makes one distinct / non-trivial
    def plan(tier, seed) -> list       list of JSON-serialisable case descriptors
    def run_case(case) -> dict         executed in a worker; returns
        {'violations': [{'key': str, 'msg': str, 'detail': {...}}],   # key = mechanism key (known findings)
         'counters': {name: int},         # oracle evaluations per clause, events observed...
         'signature': str|None,           # identity of the case if non-trivial by RULE, else None
         'sample': any,                   # a literal description of the case (kept for a few cases)
         'inconclusive': str|None}
    FLOORS   : {counter: minimum}       below => INCONCLUSIVE (exit 2)
    ASSUMPTIONS : [str]
"""
import hashlib
import importlib
import json
import os
import subprocess
import sys
import time

from . import VERIF, REPO

NCPU = min(16, os.cpu_count() or 1)


def load_known_findings():
    path = os.path.join(VERIF, 'known_findings.json')
    if not os.path.exists(path):
        return []
    with open(path) as fd:
        return json.load(fd).get('findings', [])


def worker_main(argv):
    """ python -m vsim.runner --worker <module> <infile> <outfile> """
    module_name, infile, outfile = argv
    import faulthandler
    faulthandler.enable()
    module = importlib.import_module(module_name)
    with open(infile) as fd:
        job = json.load(fd)
    budget = job.get('budget_s')
    t0 = time.perf_counter()
    with open(outfile, 'w') as out:
        for case in job['cases']:
            if budget is not None and time.perf_counter() - t0 > budget:
                out.write(json.dumps({'skipped': True, 'case': case}) + '\n')
                continue
            t1 = time.perf_counter()
            try:
                res = module.run_case(case)
            except Exception:
                import traceback
                res = {'violations': [], 'counters': {}, 'signature': None, 'sample': None,
                       'harness_error': traceback.format_exc()}
            res['case'] = case
            res['wall'] = time.perf_counter() - t1
            out.write(json.dumps(res, default=repr) + '\n')
            out.flush()


def run_check(module_name, tier, seed, replay=None, workers=None):
    t0 = time.perf_counter()
    module = importlib.import_module(module_name)
    prop = module.PROPERTY
    if replay:
        with open(replay) as fd:
            witness = json.load(fd)
        cases = [witness['case']]
    else:
        cases = module.plan(tier, seed)
        # the small, targeted families first: when the machine is loaded and the per-worker budget cuts a run short,
        # what is skipped belongs to the largest (general) family, whose counters have the widest margins
        sizes = {}
        for c in cases:
            sizes[c.get('family', 'general')] = sizes.get(c.get('family', 'general'), 0) + 1
        cases.sort(key=lambda c: sizes[c.get('family', 'general')])
        if os.environ.get('VERIF_FAMILY'):
            # development aid: one family of the plan only (no evidence written, floors not applied)
            cases = [c for c in cases if c.get('family', 'general') == os.environ['VERIF_FAMILY']]
            os.environ['VERIF_SELFTEST'] = os.environ.get('VERIF_SELFTEST') or 'family'
    workers = workers or NCPU
    workers = max(1, min(workers, len(cases)))
    tmp = os.path.join(os.environ.get('TMPDIR', '/tmp'), f'vsim_run_{os.getpid()}')
    os.makedirs(tmp, exist_ok=True)
    budget = getattr(module, 'BUDGET_S', {}).get(tier)
    procs = []
    env = dict(os.environ)
    env['PYTHONHASHSEED'] = '0'
    env['VERIF_REPO'] = REPO
    env['PYTHONPATH'] = VERIF + os.pathsep + env.get('PYTHONPATH', '')
    env['PYTHONWARNINGS'] = 'ignore'
    for i in range(workers):
        infile = os.path.join(tmp, f'in_{i}.json')
        outfile = os.path.join(tmp, f'out_{i}.jsonl')
        with open(infile, 'w') as fd:
            json.dump({'cases': cases[i::workers], 'budget_s': budget}, fd)
        proc = subprocess.Popen([sys.executable, '-m', 'vsim.runner', '--worker', module_name, infile, outfile],
                                env=env, cwd=VERIF, stdout=subprocess.PIPE, stderr=subprocess.STDOUT)
        procs.append((proc, outfile))
    watchdog = getattr(module, 'WATCHDOG_S', {}).get(tier, 1500 if tier == 'thorough' else 400)
    results, inconclusive = [], []
    for proc, outfile in procs:
        remaining = max(5.0, watchdog - (time.perf_counter() - t0))
        try:
            output, _ = proc.communicate(timeout=remaining)
        except subprocess.TimeoutExpired:
            proc.kill()
            output, _ = proc.communicate()
            inconclusive.append('wall-clock watchdog fired on a worker')
        if proc.returncode not in (0, None, -9):
            inconclusive.append(f'worker exited with status {proc.returncode}: {output.decode(errors="replace")[-2000:]}')
        if os.path.exists(outfile):
            with open(outfile) as fd:
                for line in fd:
                    line = line.strip()
                    if line:
                        try:
                            results.append(json.loads(line))
                        except ValueError:
                            inconclusive.append('truncated worker output')
    for name in os.listdir(tmp):
        os.unlink(os.path.join(tmp, name))
    os.rmdir(tmp)
    return finish(module, prop, tier, seed, results, inconclusive, time.perf_counter() - t0, replay)


def finish(module, prop, tier, seed, results, inconclusive, wall, replay):
    known = [f for f in load_known_findings() if f['property'] == prop and f.get('status') == 'open']
    counters = {}
    signatures = set()
    samples = []
    violations = []
    skipped = 0
    evaluations = 0
    for res in results:
        if res.get('skipped'):
            skipped += 1
            continue
        evaluations += 1
        if res.get('harness_error'):
            inconclusive.append('harness error: ' + res['harness_error'][-1500:])
            continue
        if res.get('inconclusive'):
            counters['cases_inconclusive'] = counters.get('cases_inconclusive', 0) + 1
        for name, value in res.get('counters', {}).items():
            counters[name] = counters.get(name, 0) + value
        if res.get('signature') is not None:
            signatures.add(res['signature'])
        if res.get('sample') is not None and len(samples) < 3:
            samples.append(res['sample'])
        for v in res.get('violations', []):
            violations.append((res['case'], v))
    counters['cases_skipped_budget'] = skipped
    # classification against the committed known findings (by mechanism key)
    new, listed = [], {}
    for case, v in violations:
        match = next((f for f in known if f['key'] == v['key']), None)
        if match:
            listed.setdefault(match['key'], (match, case, v))
        else:
            new.append((case, v))
    for key, (match, case, v) in sorted(listed.items()):
        print(f"KNOWN-FINDING: property={prop} {match['what']} [key={key}]")
    selftest = bool(os.environ.get('VERIF_SELFTEST'))
    replay_dir = os.path.join(VERIF, 'replays', 'selftest' if selftest else '', prop)
    seen_keys = set()
    rc = 0
    for case, v in new:
        if v['key'] in seen_keys:
            continue
        seen_keys.add(v['key'])
        os.makedirs(replay_dir, exist_ok=True)
        digest = hashlib.sha1(json.dumps([case, v['key']], sort_keys=True, default=repr).encode()).hexdigest()[:12]
        path = os.path.join(replay_dir, f'{digest}.json')
        with open(path, 'w') as fd:
            json.dump({'property': prop, 'module': module.__name__, 'case': case, 'violation': v}, fd, indent=1,
                      default=repr)
        print(f"VIOLATION property={prop} replay={path}")
        print(f"  key={v['key']}: {v['msg'][:600]}")
        others = sorted({str(c.get('seed')) + (':' + c['family'] if c.get('family') else '') for c, o in new
                         if o['key'] == v['key'] and c is not case})
        if others:
            print(f"  same key in {len(others)} other case(s): {', '.join(others[:12])}")
        rc = 1
    extra_fn = getattr(module, 'coverage_extra', None)
    extra_values = extra_fn([r for r in results if not r.get('skipped')]) if extra_fn else {}
    for name, value in extra_values.items():
        if isinstance(value, (int, float)):
            counters[name] = value
    floors = getattr(module, 'FLOORS', {}).get(tier, {}) if not replay and not os.environ.get('VERIF_FAMILY') else {}
    for name, floor in floors.items():
        if counters.get(name, 0) < floor:
            inconclusive.append(f'counter {name}={counters.get(name, 0)} below its floor {floor}')
    if len(signatures) < 2 and not replay:
        inconclusive.append(f'only {len(signatures)} distinct non-trivial cases')
    if not replay and not selftest:
        coverage = {'evaluations': evaluations, 'distinct_nontrivial': len(signatures), 'rule': module.RULE,
                    'samples': samples or ['(no sample returned)'], 'counters': counters,
                    'known_findings_met': sorted(listed), 'new_violation_keys': sorted(seen_keys),
                    'tree_under_test': REPO, 'workers': NCPU}
        coverage.update(extra_values)
        evidence = {'property_id': prop, 'tier': tier, 'seed': seed, 'level': module.LEVEL, 'coverage': coverage,
                    'assumptions': getattr(module, 'ASSUMPTIONS', []), 'wall_s': round(wall, 2),
                    'violations': len(new), 'inconclusive': inconclusive[:5]}
        os.makedirs(os.path.join(VERIF, 'evidence'), exist_ok=True)
        with open(os.path.join(VERIF, 'evidence', f'{prop}.json'), 'w') as fd:
            json.dump(evidence, fd, indent=1, default=repr)
    print(f'{prop} tier={tier} seed={seed} cases={evaluations} distinct_nontrivial={len(signatures)} '
          f'violations={len(new)} known={len(listed)} wall={wall:.1f}s')
    interesting = {k: v for k, v in sorted(counters.items())}
    print('  counters: ' + ', '.join(f'{k}={v}' for k, v in interesting.items()))
    if rc == 0 and inconclusive:
        for reason in inconclusive[:5]:
            print(f'INCONCLUSIVE property={prop} reason={reason[:1500]}')
        return 2
    return rc


def main():
    if len(sys.argv) > 1 and sys.argv[1] == '--worker':
        worker_main(sys.argv[2:])
        return 0
    import argparse
    parser = argparse.ArgumentParser()
    parser.add_argument('property')
    parser.add_argument('--tier', default=os.environ.get('VERIF_TIER', 'quick'), choices=['quick', 'thorough'])
    parser.add_argument('--seed', type=int, default=int(os.environ.get('VERIF_SEED', '0')))
    parser.add_argument('--replay')
    parser.add_argument('--workers', type=int)
    args = parser.parse_args()
    prop = args.property.upper()
    names = [n[:-3] for n in os.listdir(os.path.join(VERIF, 'monitors'))
             if n.lower().startswith(prop.lower() + '_') and n.endswith('.py')]
    if not names:
        print(f'no monitor module for {prop}')
        return 2
    return run_check(f'monitors.{names[0]}', args.tier, args.seed, args.replay, args.workers)


if __name__ == '__main__':
    sys.exit(main())
