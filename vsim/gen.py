""" Scenario generators: topology, options, Supervisor configurations, rules model + XML, behaviours, schedules.

The *rules model* is plain data that the oracles read directly, so that no oracle of C01-C17/C19 depends on
supvisors/sparser.py (C18 checks the parser separately against its own reference resolver).
"""
from xml.sax.saxutils import escape

NICKS = ['alpha', 'bravo', 'charlie', 'delta', 'echo', 'fox', 'golf', 'hotel']
STARTING = ['CONFIG', 'LESS_LOADED', 'MOST_LOADED', 'LOCAL', 'LESS_LOADED_NODE', 'MOST_LOADED_NODE']
CONCILIATION = ['SENICIDE', 'INFANTICIDE', 'USER', 'STOP', 'RESTART', 'RUNNING_FAILURE']
STARTING_FAILURE = ['ABORT', 'STOP', 'CONTINUE']
RUNNING_FAILURE = ['CONTINUE', 'RESTART_PROCESS', 'STOP_APPLICATION', 'RESTART_APPLICATION']
DISTRIBUTION = ['ALL_INSTANCES', 'SINGLE_INSTANCE', 'SINGLE_NODE']


def gen_topology(rng, n_min=2, n_max=4, max_nodes=3, shuffle_nicks=True):
    """ Instances with nick identifiers in random order relative to the declaration order. """
    n = rng.randint(n_min, n_max)
    nicks = rng.sample(NICKS, n) if shuffle_nicks else NICKS[:n]
    n_nodes = rng.randint(1, min(max_nodes, n))
    # every node gets at least one instance
    nodes = list(range(n_nodes)) + [rng.randrange(n_nodes) for _ in range(n - n_nodes)]
    rng.shuffle(nodes)
    ports = {}
    specs = []
    for nick, node in zip(nicks, nodes):
        port = 60001 + ports.get(node, 0)
        ports[node] = ports.get(node, 0) + 1
        specs.append({'nick': nick, 'node': node, 'ip': f'10.0.{node}.1', 'port': port,
                      'wall_off': round(rng.uniform(0.0, 5.0), 3),
                      'mono_off': round(rng.uniform(10.0, 100000.0), 3)})
    return specs


def identifier(spec):
    return f"{spec['ip']}:{spec['port']}"


def gen_options(rng, specs, allow_user=False, allow_shutdown=False, synchro=None, fence=None):
    """ [supvisors] options; the synchronization condition can always be met when every instance is up. """
    nicks = [s['nick'] for s in specs]
    opts = {}
    core = []
    if len(nicks) >= 2 and rng.random() < 0.4:
        core = rng.sample(nicks, rng.randint(1, max(1, len(nicks) - 1)))
        opts['core_identifiers'] = ','.join(core)
    if synchro is None:
        pool = ['STRICT', 'LIST', 'TIMEOUT'] + (['CORE'] if core else []) + (['USER'] if allow_user else [])
        k = rng.randint(1, len(pool))
        synchro = rng.sample(pool, k)
    opts['synchro_options'] = ','.join(synchro)
    opts['synchro_timeout'] = rng.choice([15, 20, 25, 30])
    opts['inactivity_ticks'] = rng.choice([2, 2, 3, 4])
    opts['auto_fence'] = ('true' if rng.random() < 0.4 else 'false') if fence is None else fence
    opts['conciliation_strategy'] = rng.choice(CONCILIATION)
    opts['starting_strategy'] = rng.choice(STARTING)
    strategies = ['CONTINUE', 'RESYNC'] + (['SHUTDOWN'] if allow_shutdown else [])
    opts['supvisors_failure_strategy'] = rng.choice(strategies)
    return opts


def effective_options(opts):
    """ What SupvisorsOptions.check_options documents: CORE dropped without core_identifiers, TIMEOUT forces
    supvisors_failure_strategy to CONTINUE. """
    synchro = [x for x in opts['synchro_options'].split(',') if x]
    if not opts.get('core_identifiers') and 'CORE' in synchro:
        synchro.remove('CORE')
    failure = opts.get('supvisors_failure_strategy', 'CONTINUE')
    if 'TIMEOUT' in synchro:
        failure = 'CONTINUE'
    return {'synchro': synchro, 'failure': failure,
            'core': [x for x in opts.get('core_identifiers', '').split(',') if x],
            'auto_fence': opts.get('auto_fence') == 'true',
            'inactivity_ticks': int(opts.get('inactivity_ticks', 2)),
            'synchro_timeout': int(opts.get('synchro_timeout', 15))}


def gen_apps(rng, specs, n_apps=(1, 3), n_progs=(1, 3), managed_p=0.85, max_numprocs=2, loads=(0, 30),
             seq_max=3, per_instance_diff=0.0, allow_wait_exit=False, distribution=None, restricted_p=None, wait_exit_p=None,
             startsecs=(0, 4), stopwaitsecs=(1, 4), strategies=True, identifiers_p=0.3,
             autorestart=('false', 'false', 'unexpected'), supvisors_failure_p=0.0):
    """ Returns (rules_model, groups_by_nick).

    rules_model = {app: {'managed': bool, 'start_sequence', 'stop_sequence', 'distribution', 'identifiers',
                        'starting_strategy', 'starting_failure_strategy', 'running_failure_strategy',
                        'programs': {prog: {'numprocs', 'start_sequence', 'stop_sequence', 'required', 'wait_exit',
                                            'expected_loading', 'identifiers', 'running_failure_strategy',
                                            'starting_failure_strategy', conf...}}}}
    Every value is the *effective* value (defaults resolved), so that oracles do not re-implement the parser.
    """
    nicks = [s['nick'] for s in specs]
    model = {}
    n = rng.randint(*n_apps)
    for a in range(n):
        app_name = f'app{a + 1}'
        managed = rng.random() < managed_p
        app = {'managed': managed, 'programs': {}}
        if managed:
            app['start_sequence'] = rng.randint(0, seq_max)
            app['stop_sequence'] = rng.choice([None, rng.randint(0, seq_max)])
            app['distribution'] = distribution or rng.choice(['ALL_INSTANCES'] * 3 + DISTRIBUTION[1:])
            if restricted_p is not None and not distribution:
                # (drawn from a separate generator so that the other draws of the scenario are unchanged)
                app['distribution'] = rng.choice(DISTRIBUTION[1:]) if rng.random() < restricted_p else 'ALL_INSTANCES'
            app['identifiers'] = ['*'] if rng.random() > identifiers_p else \
                rng.sample(nicks, rng.randint(1, len(nicks)))
            app['starting_strategy'] = rng.choice([None] + STARTING) if strategies else None
            app['starting_failure_strategy'] = rng.choice(STARTING_FAILURE)
            app['running_failure_strategy'] = rng.choice(RUNNING_FAILURE)
        for p in range(rng.randint(*n_progs)):
            prog_name = f'{app_name}_p{p + 1}'
            prog = {'numprocs': rng.choice([1] * 3 + list(range(2, max_numprocs + 1))) if max_numprocs > 1 else 1,
                    'startsecs': rng.randint(*startsecs), 'stopwaitsecs': rng.randint(*stopwaitsecs),
                    'startretries': rng.randint(0, 2), 'autorestart': rng.choice(list(autorestart)),
                    'exitcodes': '0'}
            if managed:
                prog['start_sequence'] = rng.randint(0, seq_max)
                prog['stop_sequence'] = rng.choice([None, rng.randint(0, seq_max)])
                prog['required'] = rng.random() < 0.5
                prog['wait_exit'] = allow_wait_exit and rng.random() < (0.25 if wait_exit_p is None else wait_exit_p)
                prog['expected_loading'] = rng.randint(*loads)
                prog['identifiers'] = ['*'] if rng.random() > identifiers_p else \
                    rng.sample(nicks, rng.randint(1, len(nicks)))
                prog['running_failure_strategy'] = rng.choice([None] + RUNNING_FAILURE)
                if supvisors_failure_p and rng.random() < supvisors_failure_p:
                    # a crash of this program restarts / shuts down the whole Supvisors
                    prog['running_failure_strategy'] = rng.choice(['RESTART', 'SHUTDOWN'])
                prog['starting_failure_strategy'] = rng.choice([None] + STARTING_FAILURE)
            app['programs'][prog_name] = prog
        model[app_name] = app
    resolve_model(model)
    groups_by_nick = {}
    for spec in specs:
        groups = {}
        for app_name, app in model.items():
            progs = {}
            for prog_name, prog in app['programs'].items():
                if per_instance_diff and rng.random() < per_instance_diff:
                    continue  # this instance does not know the program
                progs[prog_name] = {k: prog[k] for k in ('numprocs', 'startsecs', 'stopwaitsecs', 'startretries',
                                                         'autorestart', 'exitcodes')}
            if progs:
                groups[app_name] = progs
        groups_by_nick[spec['nick']] = groups
    return model, groups_by_nick


def resolve_model(model):
    """ Apply the documented defaults in place (effective values). """
    for app in model.values():
        if app['managed']:
            if app.get('stop_sequence') is None:
                app['stop_sequence_eff'] = app['start_sequence']
            else:
                app['stop_sequence_eff'] = app['stop_sequence']
        else:
            app['start_sequence'] = 0
            app['stop_sequence_eff'] = 0
        for prog in app['programs'].values():
            if app['managed']:
                if prog['start_sequence'] == 0:
                    prog['required_eff'] = False
                else:
                    prog['required_eff'] = prog['required']
                prog['stop_sequence_eff'] = prog['start_sequence'] if prog.get('stop_sequence') is None \
                    else prog['stop_sequence']
                prog['running_failure_eff'] = prog.get('running_failure_strategy') or app['running_failure_strategy']
                prog['starting_failure_eff'] = prog.get('starting_failure_strategy') or \
                    app['starting_failure_strategy']
            else:
                prog.update(start_sequence=0, stop_sequence_eff=0, required_eff=False, wait_exit=False,
                            expected_loading=0, identifiers=['*'], running_failure_eff='CONTINUE',
                            starting_failure_eff='ABORT')


def process_names(prog_name, prog):
    if prog['numprocs'] == 1:
        return [prog_name]
    return [f'{prog_name}_{i:02d}' for i in range(1, prog['numprocs'] + 1)]


def model_processes(model):
    """ {namespec: (app_name, prog_name)} """
    res = {}
    for app_name, app in model.items():
        for prog_name, prog in app['programs'].items():
            for name in process_names(prog_name, prog):
                res[f'{app_name}:{name}'] = (app_name, prog_name)
    return res


def rules_xml(model):
    out = ['<?xml version="1.0" encoding="UTF-8" standalone="no"?>', '<root>']
    for app_name, app in model.items():
        if not app['managed']:
            continue
        out.append(f' <application name="{escape(app_name)}">')
        out.append(f"  <distribution>{app['distribution']}</distribution>")
        out.append(f"  <identifiers>{','.join(app['identifiers'])}</identifiers>")
        out.append(f"  <start_sequence>{app['start_sequence']}</start_sequence>")
        if app.get('stop_sequence') is not None:
            out.append(f"  <stop_sequence>{app['stop_sequence']}</stop_sequence>")
        if app.get('starting_strategy'):
            out.append(f"  <starting_strategy>{app['starting_strategy']}</starting_strategy>")
        out.append(f"  <starting_failure_strategy>{app['starting_failure_strategy']}</starting_failure_strategy>")
        out.append(f"  <running_failure_strategy>{app['running_failure_strategy']}</running_failure_strategy>")
        if app.get('operational_status'):
            out.append(f"  <operational_status>{escape(app['operational_status'])}</operational_status>")
        out.append('  <programs>')
        for prog_name, prog in app['programs'].items():
            if prog['numprocs'] == 1:
                out.append(f'   <program name="{prog_name}">')
            else:
                out.append(f'   <program pattern="{prog_name}_">')
            out.append(f"    <identifiers>{','.join(prog['identifiers'])}</identifiers>")
            out.append(f"    <start_sequence>{prog['start_sequence']}</start_sequence>")
            if prog.get('stop_sequence') is not None:
                out.append(f"    <stop_sequence>{prog['stop_sequence']}</stop_sequence>")
            out.append(f"    <required>{'true' if prog['required'] else 'false'}</required>")
            out.append(f"    <wait_exit>{'true' if prog['wait_exit'] else 'false'}</wait_exit>")
            out.append(f"    <expected_loading>{prog['expected_loading']}</expected_loading>")
            if prog.get('starting_failure_strategy'):
                out.append(f"    <starting_failure_strategy>{prog['starting_failure_strategy']}"
                           '</starting_failure_strategy>')
            if prog.get('running_failure_strategy'):
                out.append(f"    <running_failure_strategy>{prog['running_failure_strategy']}"
                           '</running_failure_strategy>')
            out.append('   </program>')
        out.append('  </programs>')
        out.append(' </application>')
    out.append('</root>')
    return '\n'.join(out)


SCHED_PROFILES = {
    'eager': {'delay': {'kind': 'uniform', 'lo': 0.001, 'hi': 0.02}, 'loop_period': (0.2, 1.0)},
    'lazy': {'delay': {'kind': 'uniform', 'lo': 0.05, 'hi': 0.9}, 'loop_period': (0.5, 1.0)},
    'bursty': {'delay': {'kind': 'bursty', 'lo': 0.001, 'hi': 0.05, 'p': 0.15, 'max': 2.5}, 'loop_period': (0.2, 1.0)},
    'jitter': {'delay': {'kind': 'uniform', 'lo': 0.001, 'hi': 0.3}, 'loop_period': (0.1, 1.0)},
}


# profiles that are only used when a family names them (not part of the default choice)
EXTRA_PROFILES = {
    # delays anywhere below one tick period: two consecutive TICKs of a peer may arrive within one local tick period
    'wide': {'delay': {'kind': 'uniform', 'lo': 0.01, 'hi': 4.5}, 'loop_period': (0.2, 1.0)},
}


def gen_sched(rng, specs, profiles=None):
    name = rng.choice(profiles or list(SCHED_PROFILES))
    sched = dict(SCHED_PROFILES.get(name) or EXTRA_PROFILES[name])
    sched['name'] = name
    sched['cut_block'] = rng.choice([[0.0, 0.0], [0.2, 2.0], [2.0, 12.0]])
    sched['restart_delay'] = rng.choice([(0.3, 2.0), (2.0, 8.0), (8.0, 25.0)])
    if len(specs) >= 2 and rng.random() < 0.25:
        a, b = rng.sample([s['nick'] for s in specs], 2)
        sched['slow_links'] = {f'{a}>{b}': {'kind': 'uniform', 'lo': 0.5, 'hi': 3.0}}
        sched['name'] += '+slow'
    return sched
