""" Engine L2: one real booted instance (sv1), the other declared instances are scripted peers ('puppets') that
answer its XML-RPCs and send it publications; the proxy 'threads' of the real instance are stepped by the harness,
one message at a time, so that the order of deliveries is a choice of the scenario (DESIGN.md 3). """
import errno
import json

from .sim import World, BASE_TIME
from .single import make_specs, RULES_MIN
from .cluster import peek

PUBLICATION, NOTIFICATION = 'SupvisorsPublication', 'SupvisorsNotification'
TICK, PROCESS, PROCESS_ADDED, PROCESS_REMOVED, PROCESS_DISABILITY, HOST_STATISTICS, PROCESS_STATISTICS, STATE = range(8)
IDENTIFICATION, AUTHORIZATION, N_STATE, ALL_INFO, DISCOVERY, INSTANCE_FAILURE = range(6)
AUTH_CODES = {'UNKNOWN': 0, 'AUTHORIZED': 1, 'NOT_AUTHORIZED': 2, 'INCONSISTENT': 3}
INSTANCE_STATE_CODES = {'STOPPED': 0, 'CHECKING': 1, 'CHECKED': 2, 'RUNNING': 3, 'FAILED': 4, 'ISOLATED': 5}
FSM_CODES = {'OFF': 0, 'SYNCHRONIZATION': 1, 'ELECTION': 2, 'DISTRIBUTION': 3, 'OPERATION': 4, 'CONCILIATION': 5}


class Puppet:
    """ A scripted peer. Its 'disposition' (what it answers during a handshake) is set by the scenario. """

    def __init__(self, l2, index, spec):
        self.l2, self.index, self.spec = l2, index, spec
        self.nick = spec['nick']
        self.identifier = f"{spec['ip']}:{spec['port']}"
        self.origin = [self.identifier, self.nick, [spec['ip'], spec['port']]]
        self.up = True
        self.view_of_local = 'RUNNING'
        self.strategy_delta = None
        self.rpc_latency = 0.0
        self.counter = 0
        self.changed_seq = 0
        self.received = []
        self.handshakes = []
        self.proc_states = {}
        self.fsm = 'OFF'

    # -- clock -------------------------------------------------------------------------------------
    def mono(self):
        return self.l2.world.now - BASE_TIME + 5000.0 * (self.index + 1)

    # -- XML-RPC server side ------------------------------------------------------------------------
    def latency(self, method):
        return self.rpc_latency

    def expected_authorization(self):
        if self.view_of_local == 'ISOLATED':
            return 'NOT_AUTHORIZED'
        if self.strategy_delta:
            return 'INCONSISTENT'
        return 'AUTHORIZED'

    def answer(self, src, method, params):
        l2 = self.l2
        l2.tick_seq()
        self.received.append((l2.sequence, l2.world.now, method))
        if not self.up:
            raise ConnectionRefusedError(errno.ECONNREFUSED, 'Connection refused')
        if method == 'supvisors.get_network_info':
            # first XML-RPC of a handshake
            self.handshakes.append({'seq': l2.sequence, 't': l2.world.now, 'expected': self.expected_authorization(),
                                    'delivered': False})
            return self.network_info()
        if method == 'supvisors.get_instance_info':
            payload = dict(l2.template('supvisors.get_instance_info', l2.local_identifier)[0])
            payload['statename'] = self.view_of_local
            payload['statecode'] = INSTANCE_STATE_CODES[self.view_of_local]
            return [payload]
        if method == 'supvisors.get_strategies':
            payload = dict(l2.template('supvisors.get_strategies'))
            if self.strategy_delta:
                key, value = self.strategy_delta
                payload[key] = value
            return payload
        if method == 'supvisors.get_instance_state_modes':
            return [self.state_modes()]
        if method == 'supvisors.get_all_local_process_info':
            return self.all_process_info()
        return True

    # -- payloads -----------------------------------------------------------------------------------
    def network_info(self):
        spec = self.spec
        return {'identifier': self.identifier, 'nick_identifier': self.nick, 'host_id': spec['ip'],
                'http_port': spec['port'], 'stereotypes': [],
                'network': {'machine_id': f'02:00:00:00:01:{self.index:02d}', 'fqdn': f'puppet{self.index}.sim',
                            'addresses': {'eth0': {'host_name': f'puppet{self.index}', 'aliases': [],
                                                   'ipv4_addresses': [spec['ip']],
                                                   'nic_info': {'nic_name': 'eth0', 'ipv4_address': spec['ip'],
                                                                'netmask': '255.255.0.0'}}}}}

    def state_modes(self, **over):
        l2 = self.l2
        states = {identifier: 'STOPPED' for identifier in l2.identifiers}
        states[self.identifier] = 'RUNNING'
        states[l2.local_identifier] = self.view_of_local
        payload = {'identifier': self.identifier, 'nick_identifier': self.nick, 'now_monotonic': self.mono(),
                   'fsm_statecode': FSM_CODES[self.fsm], 'fsm_statename': self.fsm, 'degraded_mode': False,
                   'discovery_mode': False, 'master_identifier': '', 'starting_jobs': False, 'stopping_jobs': False,
                   'instance_states': states}
        payload.update(over)
        return payload

    def all_process_info(self):
        out = []
        for info in self.l2.template('supvisors.get_all_local_process_info'):
            info = dict(info)
            namespec = f"{info['group']}:{info['name']}"
            state = self.proc_states.get(namespec, 0)
            info.update({'state': state, 'statename': {0: 'STOPPED', 10: 'STARTING', 20: 'RUNNING', 100: 'EXITED',
                                                       200: 'FATAL'}.get(state, 'UNKNOWN'),
                         'now': int(self.l2.world.now), 'now_monotonic': self.mono(),
                         'pid': 4000 + self.index if state in (10, 20) else 0,
                         'start': int(self.l2.world.now) - 10 if state in (10, 20) else 0,
                         'start_monotonic': self.mono() - 10 if state in (10, 20) else 0.0})
            out.append(info)
        return out

    def process_event(self, namespec, state):
        group, name = namespec.split(':')
        return {'identifier': self.identifier, 'nick_identifier': self.nick, 'name': name, 'group': group,
                'state': state, 'now': self.l2.world.now, 'now_monotonic': self.mono(),
                'pid': 4000 + self.index if state in (10, 20) else 0, 'expected': True, 'spawnerr': '',
                'extra_args': '', 'disabled': False}

    def tick(self):
        body = {'when': int(self.l2.world.now), 'when_monotonic': self.mono(), 'sequence_counter': self.counter}
        self.counter += 1
        return body


class L2:
    """ One real instance and its puppets. """

    def __init__(self, n=3, options=None, groups=None, rules_xml=RULES_MIN, model=None, seed=0):
        specs = make_specs(n)
        for spec in specs:
            spec['groups'] = groups or {}
        opts = {'synchro_options': 'TIMEOUT', 'synchro_timeout': 15}
        opts.update(options or {})
        scenario = {'instances': specs, 'options': opts, 'rules_xml': rules_xml, 'model': model or {},
                    'sched': {'loop_period': (0.4, 0.9)}}
        self.world = w = World(scenario, seed=seed, keep_events=False)
        w.manual = True
        self.sequence = 0
        self.stepping_pushed_at = None
        self.identifiers = [f"{s['ip']}:{s['port']}" for s in specs]
        self.local_identifier = self.identifiers[0]
        self.puppets = {}
        for index, spec in enumerate(specs[1:]):
            puppet = Puppet(self, index, spec)
            self.puppets[puppet.nick] = puppet
            w.puppets[puppet.nick] = puppet
        self._templates = {}
        self.inst = w.start_instance('sv1')
        self.supvisors = self.inst.supvisors
        w.listeners.append(lambda ev: self.tick_seq())

    def tick_seq(self):
        self.sequence += 1

    def template(self, method, *args):
        key = (method, args)
        if key not in self._templates or method == 'supvisors.get_instance_info':
            self._templates[key] = peek(self.world, 'sv1', method, *args)
        return self._templates[key]

    # -- scheduling ---------------------------------------------------------------------------------
    def proxies(self):
        return self.supvisors.rpc_handler.proxy_server.proxies

    def enabled(self):
        now = self.world.now
        return [proxy for proxy in list(self.proxies().values())
                if proxy.fifo and not proxy.stopped and not proxy.dead and proxy.next_free <= now
                and (not proxy.ready or proxy.ready[0] <= now)]

    def step(self, proxy):
        self.tick_seq()
        # when the message about to be processed was queued (a real thread would not have kept it that long)
        self.stepping_pushed_at = proxy.ready[0] if proxy.ready else self.world.now
        try:
            proxy.step()
        finally:
            self.stepping_pushed_at = None

    def drain(self, limit=200):
        n = 0
        while n < limit:
            ready = self.enabled()
            if not ready:
                break
            self.step(ready[0])
            n += 1
        return n

    def advance(self, duration):
        self.tick_seq()
        self.world.run_for(duration)

    # -- messages towards the real instance -----------------------------------------------------------
    def send(self, kind, origin, header, body):
        """ A sendRemoteCommEvent XML-RPC received by the real instance (what a peer, or one of its own proxy
        threads, sends). """
        self.tick_seq()
        return self.world.user_rpc('sv1', 'supervisor.sendRemoteCommEvent', kind, json.dumps([origin, [header, body]]))

    def peer_state(self, identifier):
        return self.supvisors.context.instances[identifier].state.name

    def close(self):
        self.world.close()
