""" Fault injectors attached at hooks (failpoints): they fire at a precise point of an execution. """
import json


def crash_target_on_request(run, p, limit=1, delay=(0.0, 0.6), keep=(), reboot_p=0.0, down=(0.2, 6.0), stops=False):
    """ With probability p, the target of a start request crashes around the delivery of that request
    (before the STARTING event can come back). """
    w, rng = run.world, run.rng
    state = {'n': 0}

    def on_start(inst, identifier, namespec, extra_args):
        if state['n'] >= limit or rng.random() >= p:
            return
        target = w.by_identifier.get(identifier)
        if target is None or target == inst.nick or target in keep:
            return
        tinst = w.instances.get(target)
        if tinst is None or not tinst.alive or len(w.live()) <= 2:
            return
        state['n'] += 1
        run.count('injected_target_crashes')
        lo, hi = delay
        w.at(w.now + rng.uniform(lo, hi), crash, target, namespec)

    def crash(target, namespec):
        w.emit('fault', kind_='crash_target_on_request', target=target, namespec=namespec)
        w.crash_instance(target)
        if rng.random() < reboot_p:
            # the Supervisor of the target is restarted, possibly quicker than the failure detection of its peers
            back = rng.uniform(*down)
            w.at(w.now + back, w.start_instance, target)
            run.reboot_until = max(getattr(run, 'reboot_until', 0.0), w.now + back)
            run.count('injected_target_restarts')
        if hasattr(run, 'lost'):
            run.lost.add(target)
        if hasattr(run, 'injected'):
            run.injected.append({'kind': 'crash_target_on_request', 'target': target, 'namespec': namespec,
                                 'vt': round(w.now - 1_700_000_000.0, 3)})

    w.on_hook('send_start_process', on_start)
    if stops:
        w.on_hook('send_stop_process', lambda inst, identifier, namespec: on_start(inst, identifier, namespec, ''))


def drop_start_requests(run, p):
    """ Unanswered requests: each supvisors.start_args XML-RPC (also the one an instance sends to itself) is lost with
    probability p - the target never hears of it, no event ever comes back. """
    w, rng = run.world, run.rng
    previous = w.msg_filter

    def flt(world, src_inst, dst_nick, method, args):
        if method == 'supvisors.start_args' and src_inst is not None and rng.random() < p:
            run.count('start_requests_lost')
            return 'drop'
        return previous(world, src_inst, dst_nick, method, args) if previous else None

    w.msg_filter = flt


def drop_process_publications(run, p, kinds=('PROCESS',), only_states=None):
    """ Lossy channel: each PROCESS publication between two different instances is silently dropped with
    probability p (the sender believes it was sent). """
    w, rng = run.world, run.rng

    def flt(world, src_inst, dst_nick, method, args):
        if method != 'supervisor.sendRemoteCommEvent' or src_inst is None or src_inst.nick == dst_nick:
            return None
        if args[0] != 'SupvisorsPublication':
            return None
        origin, (header, body) = json.loads(args[1])
        if header != 1 or body.get('forced'):   # PublicationHeaders.PROCESS, real events only
            return None
        if only_states is not None and body.get('state') not in only_states:
            return None
        if rng.random() < p:
            run.count('dropped_process_publications')
            return 'drop'
        return None

    w.msg_filter = flt
