""" L1/L2 support: one real booted instance whose peers exist only in its configuration. """
from .sim import World

RULES_MIN = '<?xml version="1.0" encoding="UTF-8" standalone="no"?>\n<root>\n</root>'


def make_specs(n, nodes=None):
    specs = []
    ports = {}
    for i in range(n):
        node = nodes[i] if nodes else i
        port = 60001 + ports.get(node, 0)
        ports[node] = ports.get(node, 0) + 1
        specs.append({'nick': f'sv{i + 1}', 'node': node, 'ip': f'10.0.{node}.1', 'port': port,
                      'wall_off': 0.0, 'mono_off': 1000.0 * (i + 1), 'groups': {}})
    return specs


class Single:
    """ World with n declared instances of which only the first one is booted. """

    def __init__(self, n=4, nodes=None, options=None, rules_xml=RULES_MIN, groups=None, seed=0, model=None):
        specs = make_specs(n, nodes)
        if groups:
            for spec in specs:
                spec['groups'] = groups
        opts = {'synchro_options': 'TIMEOUT', 'synchro_timeout': 15}
        opts.update(options or {})
        scenario = {'instances': specs, 'options': opts, 'rules_xml': rules_xml, 'model': model or {}}
        self.world = World(scenario, seed=seed, keep_events=False)
        self.inst = self.world.start_instance('sv1')
        self.supvisors = self.inst.supvisors
        self.identifiers = [f"{s['ip']}:{s['port']}" for s in specs]

    def ctx(self):
        return self.world.enter(self.inst)

    def advance(self, dt):
        self.world.now += dt

    def close(self):
        self.world.close()
