""" vsim - runtime-monitoring harness for julien6387/supvisors.

Importing this package puts the tree under test (VERIF_REPO, default /repo) first on sys.path so that
`import supvisors` resolves to it rather than to the editable install of /venv.
"""
import os
import sys

REPO = os.path.abspath(os.environ.get('VERIF_REPO', '/repo'))
if not sys.path or sys.path[0] != REPO:
    sys.path.insert(0, REPO)
VERIF = os.path.dirname(os.path.dirname(os.path.abspath(__file__)))


def check_repo_binding():
    """ Fail loudly if supvisors is not imported from the tree under test. """
    import supvisors
    path = os.path.dirname(os.path.abspath(supvisors.__file__))
    if not path.startswith(REPO):
        raise RuntimeError(f'supvisors imported from {path}, expected under {REPO}')
    return path
