""" Cluster simulator: N real Supvisors plugin instances in one process (DESIGN.md section 2).

Real: supervisor's ServerOptions parsing, Supervisor, ProcessGroup, Subprocess state machine, RPC interfaces,
events; the whole supvisors package created through make_supvisors_rpcinterface.
Fake: OS layer (fork/kill/waitpid), clocks, network identity, transport between proxies and HTTP servers.
"""
import errno
import heapq
import os
import random
import shutil
import signal
import socket
import sys
import tempfile
import time as _time
import traceback
import uuid
import xmlrpc.client as xc
from collections import deque

from . import REPO, check_repo_binding  # noqa: F401 (sys.path side effect)

REAL_TIME, REAL_MONO = _time.time, _time.monotonic

from supervisor import events, xmlrpc as sup_xmlrpc  # noqa: E402
from supervisor.http import NOT_DONE_YET  # noqa: E402
from supervisor.options import ServerOptions, NotFound  # noqa: E402
from supervisor.states import SupervisorStates, ProcessStates  # noqa: E402
from supervisor.supervisord import Supervisor  # noqa: E402
from supervisor.xmlrpc import RPCError, traverse, xmlrpc_marshal  # noqa: E402

import supvisors.internal_com.mapper as sv_mapper  # noqa: E402
from supvisors.internal_com import supervisorproxy as sv_proxy  # noqa: E402
from supvisors.internal_com.supervisorproxy import (SupervisorProxy, SupervisorProxyThread,  # noqa: E402
                                                    SupervisorProxyServer, SupervisorProxyException,
                                                    InternalEventHeaders)
from supvisors.plugin import make_supvisors_rpcinterface  # noqa: E402,F401
from supvisors.ttypes import SupvisorsInstanceStates, SupvisorsStates, PublicationHeaders  # noqa: E402

BASE_TIME = 1_700_000_000.0
MIN_LIFETIME = 0.2
LEVELS = {'BLAT': 3, 'TRAC': 5, 'DEBG': 10, 'INFO': 20, 'WARN': 30, 'ERRO': 40, 'CRIT': 50}

_WORLD = None


# ---------------------------------------------------------------------------------------------------
# clocks and network identity (process-wide patches, active only while a World is installed)

def _vtime():
    w = _WORLD
    return w.wall() if w is not None else REAL_TIME()


def _vmono():
    w = _WORLD
    return w.mono() if w is not None else REAL_MONO()


_real = {}


def _gethostbyaddr(host):
    w = _WORLD
    if w is None:
        return _real['gethostbyaddr'](host)
    spec = w.hosts.get(host)
    if spec is None:
        raise socket.herror(1, 'Unknown host')
    return spec


def _getfqdn(name=''):
    w = _WORLD
    if w is None:
        return _real['getfqdn'](name)
    if name:
        return name
    cur = w.current
    return f'node{cur.spec["node"]}.sim' if cur else 'harness.sim'


def _gethostname():
    w = _WORLD
    if w is None:
        return _real['gethostname']()
    cur = w.current
    return f'node{cur.spec["node"]}' if cur else 'harness'


def _if_nameindex():
    if _WORLD is None:
        return _real['if_nameindex']()
    return [(1, 'lo'), (2, 'eth0')]


def _getnode():
    w = _WORLD
    if w is None:
        return _real['getnode']()
    cur = w.current
    return 0x020000000000 + (cur.spec['node'] if cur else 0xffff)


def _get_interface_info(nic_name):
    w = _WORLD
    if w is None:
        return _real['get_interface_info'](nic_name)
    if nic_name == 'lo':
        return '127.0.0.1', '255.0.0.0'
    cur = w.current
    return (cur.spec['ip'] if cur else '10.255.255.1'), '255.255.0.0'


def install_patches():
    if _real:
        return
    _real.update(gethostbyaddr=socket.gethostbyaddr, getfqdn=socket.getfqdn, gethostname=socket.gethostname,
                 if_nameindex=socket.if_nameindex, getnode=uuid.getnode,
                 get_interface_info=sv_mapper.get_interface_info)
    _time.time, _time.monotonic = _vtime, _vmono
    socket.gethostbyaddr, socket.getfqdn, socket.gethostname = _gethostbyaddr, _getfqdn, _gethostname
    socket.if_nameindex = _if_nameindex
    uuid.getnode = _getnode
    sv_mapper.get_interface_info = _get_interface_info
    SupervisorProxyServer.klass = SimProxy


# ---------------------------------------------------------------------------------------------------

class CaptureLogger:
    """ Same interface as supervisor.loggers.Logger; keeps WARN+ records (virtual time, level, text). """

    def __init__(self, inst, keep_level=30):
        self.inst = inst
        self.level = 20  # INFO: what the code reads to decide on trace formatting
        self.handlers = []
        self.keep_level = keep_level
        self.records = []

    def _log(self, lvl, msg, **kw):
        if lvl >= self.keep_level:
            if kw:
                try:
                    msg = msg % kw
                except Exception:
                    pass
            w = self.inst.world
            rec = (w.now, lvl, str(msg))
            self.records.append(rec)
            if lvl >= 50:
                w.emit('critical', inst=self.inst.nick, inc=self.inst.inc, msg=str(msg))
        if self.inst.world.echo and lvl >= self.inst.world.echo:
            print(f'[{self.inst.world.now - BASE_TIME:9.3f}] {self.inst.nick} {lvl} {msg}', file=sys.stderr)

    def blather(self, msg, **kw): self._log(3, msg, **kw)
    def trace(self, msg, **kw): self._log(5, msg, **kw)
    def debug(self, msg, **kw): self._log(10, msg, **kw)
    def info(self, msg, **kw): self._log(20, msg, **kw)
    def warn(self, msg, **kw): self._log(30, msg, **kw)
    def error(self, msg, **kw): self._log(40, msg, **kw)
    def critical(self, msg, **kw): self._log(50, msg, **kw)
    def log(self, level, msg, **kw): self._log(level, msg, **kw)
    def close(self): pass
    def reopen(self): pass
    def remove(self): pass
    def getvalue(self): return ''


class RecordingPublisher:
    """ External event interface implementation recording what the instance tells its listeners. """

    def __init__(self, inst):
        self.inst = inst
        self.counts = {}
        self.closed = False

    def _rec(self, kind, payload):
        self.counts[kind] = self.counts.get(kind, 0) + 1
        cb = self.inst.world.ext_cb
        if cb:
            cb(self.inst, kind, payload)

    def close(self): self.closed = True
    def send_supvisors_status(self, status): self._rec('supvisors', status)
    def send_instance_status(self, status): self._rec('instance', status)
    def send_application_status(self, status): self._rec('application', status)
    def send_process_event(self, event): self._rec('event', event)
    def send_process_status(self, status): self._rec('process', status)
    def send_host_statistics(self, statistics): self._rec('hstats', statistics)
    def send_process_statistics(self, statistics): self._rec('pstats', statistics)


class _FakeSocket:
    def shutdown(self, how):
        pass


class _FakeHttpServer:
    def __init__(self, handler):
        self.handlers = [handler, None, None, None, None]
        self.socket = _FakeSocket()


class SimOptions(ServerOptions):
    """ ServerOptions with the OS layer replaced. """

    def __init__(self, inst):
        ServerOptions.__init__(self)
        self.inst = inst

    # -- processes
    def fork(self):
        proc = sys._getframe(1).f_locals.get('self')
        return self.inst.os_fork(proc)

    def waitpid(self):
        return self.inst.os_waitpid()

    def kill(self, pid, sig):
        self.inst.os_kill(abs(pid), sig)

    def make_pipes(self, stderr=True):
        return {'child_stdin': None, 'stdin': None, 'stdout': None, 'child_stdout': None,
                'stderr': None, 'child_stderr': None}

    def close_parent_pipes(self, pipes): pass
    def close_child_pipes(self, pipes): pass
    def close_fd(self, fd): pass

    def stat(self, filename):
        return None

    def check_execv_args(self, filename, argv, st):
        proc = sys._getframe(1).f_locals.get('self')
        if self.inst.os_no_file(proc):
            raise NotFound("can't find command %r" % filename)

    def cleanup_fds(self): pass

    def close_httpservers(self):
        self.inst.http_open = False

    def close_logger(self): pass
    def get_pid(self): return 1000 + self.inst.index
    def get_signal(self): return None
    def write_pidfile(self): pass
    def cleanup(self): pass


class SimServerProxy:
    """ What SupervisorProxy.proxy returns: .supervisor.X(...) / .supvisors.X(...) dispatched to the target. """

    class _NS:
        def __init__(self, owner, ns):
            self._owner, self._ns = owner, ns

        def __getattr__(self, name):
            owner, ns = self._owner, self._ns
            return lambda *args: owner._call(ns, name, args)

    def __init__(self, simproxy):
        self.simproxy = simproxy
        self.supervisor = SimServerProxy._NS(self, 'supervisor')
        self.supvisors = SimServerProxy._NS(self, 'supvisors')
        self.system = SimServerProxy._NS(self, 'system')

    def _call(self, ns, method, args):
        p = self.simproxy
        return p.world.rpc(p.inst, p.status.identifier, f'{ns}.{method}', args, proxy=p)


class Runaway(Exception):
    """ The execution is far longer than any scenario needs (e.g. a restart storm): it is cut, and reported as such. """


HANDSHAKE_METHODS = ('supvisors.get_network_info', 'supvisors.get_instance_info', 'supvisors.get_strategies',
                     'supvisors.get_instance_state_modes', 'supvisors.get_all_instances_state_modes',
                     'supvisors.get_all_local_process_info')


class Livelock(BaseException):
    """ One scheduler step (one call into an instance) keeps producing observable actions without ever returning:
    virtual time cannot advance any more. Not an Exception, so that the last-resort guards of the code under test do
    not swallow it. """


class DeferredResult(dict):
    """ Record of a deferred XML-RPC answer (callee returned a callable polled from its main loop). """


class _Blocked(Exception):
    """ Raised inside a proxy step when the link is cut and the blocking delay has not elapsed yet. """


class SimProxy(SupervisorProxy):
    """ SupervisorProxyThread replacement: same processing code, FIFO owned by the scheduler. """

    def __init__(self, status, supvisors):
        SupervisorProxy.__init__(self, status, supvisors)
        self.world = _WORLD
        self.inst = _WORLD.current
        self.fifo = deque()
        self.ready = deque()     # not-before date of each queued message (time spent in the step that pushed it)
        self.stopped = False
        self.dead = False
        self.next_free = 0.0
        self.waited = False
        self.pending_steps = 0

    # threading.Thread API used by SupervisorProxyServer
    def start(self):
        self.world.emit('proxy_start', inst=self.inst.nick, peer=self.status.identifier)

    def join(self, timeout=None):
        pass

    def is_alive(self):
        return not self.stopped and not self.dead

    def stop(self):
        if not self.stopped:
            self.stopped = True
            self.fifo.clear()
            self.ready.clear()
            self.supvisors.rpc_handler.proxy_server.on_proxy_closing(self.status.identifier)

    def push_message(self, message):
        if self.stopped:
            return
        self.fifo.append(message)
        cur = self.world.current
        self.ready.append(self.world.now + (cur.step_skew if cur else 0.0))
        self.world.schedule_proxy_step(self)

    def _get_proxy(self):
        return SimServerProxy(self)

    process_event = SupervisorProxyThread.process_event
    handle_exception = SupervisorProxyThread.handle_exception

    def step(self):
        """ One 'thread step': process the head of the FIFO. """
        self.pending_steps -= 1
        if self.stopped or self.dead or not self.inst.alive or not self.fifo:
            return
        w = self.world
        message = self.fifo.popleft()
        ready = self.ready.popleft() if self.ready else 0.0
        self.inst.step_skew = 0.0
        try:
            # observation only: a PROCESS publication that the real publish() is about to drop because the peer is
            # not seen active any more (it was when the event was queued)
            kind, (source, body) = message
            if kind == InternalEventHeaders.PUBLICATION and body[0] == PublicationHeaders.PROCESS.value and \
                    not self.status.has_active_state():
                w.emit('pub_dropped', src=self.inst.nick, dst=w.by_identifier.get(self.status.identifier),
                       namespec=f"{body[1]['group']}:{body[1]['name']}", state=body[1]['state'])
        except (TypeError, ValueError, KeyError, IndexError):
            pass
        with w.enter(self.inst):
            try:
                self.process_event(message)
                self.waited = False
                if self.inst.step_skew:
                    self.next_free = max(self.next_free, w.now + self.inst.step_skew)
            except _Blocked as blk:
                # link cut: the real thread blocks in the socket layer; retry when the OS gives up
                self.fifo.appendleft(message)
                self.ready.appendleft(ready)
                self.waited = True
                self.pending_steps += 1
                self.next_free = w.now + blk.args[0]
                w.at(self.next_free, self.step)
            except Exception:
                self.dead = True
                w.emit('internal_error', where='proxy_thread', inst=self.inst.nick, inc=self.inst.inc,
                       peer=self.status.identifier, tb=traceback.format_exc())
            finally:
                self.inst.step_skew = 0.0


class SimInstance:
    """ One incarnation of one supervisord + Supvisors plugin. """

    def __init__(self, world, index, spec, inc):
        self.world, self.index, self.spec, self.inc = world, index, spec, inc
        self.nick = spec['nick']
        self.identifier = f"{spec['ip']}:{spec['port']}"
        self.alive = False
        self.http_open = False
        self.callbacks = []
        self.logger = CaptureLogger(self)
        self.procs = {}       # pid -> record
        self.deaths = []      # heap of (time, seq, pid, sts)
        self.last_mono = 0.0
        self.deferred = []    # [(callback, record)]
        self.sd = None
        self.supvisors = None
        self.root = None
        self.truth = {}       # namespec -> current supervisor state
        self.exit_kind = None
        self.hooks = {}
        self.step_skew = 0.0

    # -- fake OS ---------------------------------------------------------------------------------
    def _life(self, proc):
        namespec = f'{proc.group.config.name}:{proc.config.name}'
        beh = self.world.behaviour(self, namespec)
        return namespec, beh

    def os_no_file(self, proc):
        namespec, beh = self._life(proc)
        return beh.peek(self.world).get('no_file', False)

    def os_fork(self, proc):
        w = self.world
        namespec, beh = self._life(proc)
        life = beh.next_life(w)
        if life.get('fork_error'):
            raise OSError(errno.EAGAIN, 'simulated fork failure')
        w.pid_seq += 1
        pid = w.pid_seq
        rec = {'pid': pid, 'namespec': namespec, 'life': life, 'born': w.now, 'dead': False}
        self.procs[pid] = rec
        w.emit('spawn', inst=self.nick, inc=self.inc, namespec=namespec, pid=pid)
        exit_after = life.get('exit_after')
        if exit_after is not None:
            # a real process lives at least the time of fork + exec + exit (also bounds crash loops in virtual time)
            self._schedule_death(pid, w.now + max(exit_after, MIN_LIFETIME), (life.get('exit_code', 0) & 0xff) << 8)
        return pid

    def _schedule_death(self, pid, when, sts):
        w = self.world
        rec = self.procs.get(pid)
        if not rec or rec.get('death_at') is not None and rec['death_at'] <= when:
            return
        rec['death_at'] = when
        w.seq += 1
        heapq.heappush(self.deaths, (when, w.seq, pid, sts))
        w.wake(self, when)

    def os_kill(self, pid, sig):
        w = self.world
        rec = self.procs.get(pid)
        w.emit('kill', inst=self.nick, inc=self.inc, pid=pid, sig=int(sig),
               namespec=rec['namespec'] if rec else None)
        if not rec or rec['dead']:
            raise OSError(errno.ESRCH, 'No such process')
        life = rec['life']
        if sig == signal.SIGKILL:
            if life.get('kill', 'die') == 'die':
                self._schedule_death(pid, w.now, int(signal.SIGKILL))
            return
        term = life.get('term', 'die')
        if term == 'die':
            self._schedule_death(pid, w.now, int(sig))
        elif term == 'ignore':
            pass
        else:
            self._schedule_death(pid, w.now + float(term), int(sig))

    def os_waitpid(self):
        w = self.world
        while self.deaths and self.deaths[0][0] <= w.now:
            when, _, pid, sts = heapq.heappop(self.deaths)
            rec = self.procs.get(pid)
            if rec and not rec['dead'] and rec.get('death_at') == when:
                rec['dead'] = True
                return pid, sts
        return None, None

    # -- boot ------------------------------------------------------------------------------------
    def boot(self):
        w = self.world
        conf = w.write_conf(self)
        with w.enter(self):
            opts = SimOptions(self)
            saved_argv = sys.argv
            sys.argv = ['supervisord', '-c', conf, '-n']
            try:
                opts.realize(['-c', conf, '-n'])
                opts.logger = self.logger
                sd = self.sd = Supervisor(opts)
                events.subscribe(events.ProcessStateEvent, self._on_process_state)
                for config in opts.process_group_configs:
                    sd.add_process_group(config)
                subinterfaces = []
                for name, factory, d in opts.rpcinterface_factories:
                    subinterfaces.append((name, factory(sd, **d)))
                subinterfaces.append(('system', sup_xmlrpc.SystemNamespaceRPCInterface(subinterfaces)))
                handler = sup_xmlrpc.supervisor_xmlrpc_handler(sd, subinterfaces)
                self.root = handler.rpcinterface
                config = next(c for c in opts.server_configs if c['family'] == socket.AF_INET)
                opts.httpservers = [(config, _FakeHttpServer(handler))]
            finally:
                sys.argv = saved_argv
            self.supvisors = sv = sd.supvisors
            # no statistics collector process in the simulator (psutil documented as optional)
            sv.stats_collector = None
            sv.context.local_status.stats_collector = None
            self.alive = True
            self.http_open = True
            for group in sd.process_groups.values():
                for proc in group.processes.values():
                    self.truth[f'{group.config.name}:{proc.config.name}'] = proc.get_state()
            w.install_hooks(self)
            opts.mood = SupervisorStates.RUNNING
            w.emit('boot', inst=self.nick, inc=self.inc)
            events.notify(events.SupervisorRunningEvent())
            if w.use_publisher:
                sv.external_publisher = RecordingPublisher(self)
        w.at(w.now + w.rng.uniform(0.0, 1.0), self.loop_event)

    def _on_process_state(self, event):
        proc = event.process
        namespec = f'{proc.group.config.name}:{proc.config.name}'
        state = proc.get_state()
        self.truth[namespec] = state
        self.world.emit('truth', inst=self.nick, inc=self.inc, namespec=namespec, state=int(state),
                        expected=getattr(event, 'expected', True), pid=proc.pid)

    # -- main loop -------------------------------------------------------------------------------
    def loop_event(self):
        if not self.alive:
            return
        self.loop()
        if self.alive:
            w = self.world
            lo, hi = w.loop_period
            w.at(w.now + w.rng.uniform(lo, hi), self.loop_event)

    def wake_event(self):
        if self.alive:
            self.loop()

    def loop(self):
        """ One iteration of supervisord's runforever() (poll part replaced by the simulated transport). """
        w = self.world
        with w.enter(self):
            self.loop_tail()

    def loop_tail(self):
        """ Must be called inside the instance context. """
        sd = self.sd
        opts = sd.options
        pgroups = sorted(sd.process_groups.values())
        if opts.mood < SupervisorStates.RUNNING:
            if not sd.stopping:
                sd.stopping = True
                sd.stop_groups = pgroups[:]
                self.world.emit('stopping', inst=self.nick, inc=self.inc, mood=opts.mood)
                events.notify(events.SupervisorStoppingEvent())
            sd.ordered_stop_groups_phase_1()
            if not sd.shutdown_report():
                self.exit_kind = 'restart' if opts.mood == SupervisorStates.RESTARTING else 'shutdown'
                self.world.instance_exited(self)
                return
        self.poll_deferred()
        for group in pgroups:
            group.transition()
        sd.reap()
        sd.tick()
        if opts.mood < SupervisorStates.RUNNING:
            sd.ordered_stop_groups_phase_2()

    def poll_deferred(self):
        if not self.deferred:
            return
        w = self.world
        for item in list(self.deferred):
            callback, rec = item
            try:
                value = callback()
                if value is NOT_DONE_YET:
                    continue
                xmlrpc_marshal(value)
                rec['result'] = value
            except RPCError as err:
                rec['fault'] = (err.code, err.text)
            except Exception:
                rec['internal'] = traceback.format_exc()
                w.emit('internal_error', where='deferred_rpc', inst=self.nick, inc=self.inc,
                       method=rec['method'], args=rec['args'], tb=rec['internal'])
            rec['done_at'] = w.now
            self.deferred.remove(item)
            w.emit('rpc_deferred_done', inst=self.nick, inc=self.inc, method=rec['method'], args=rec['args'],
                   src=rec.get('src'), fault=rec.get('fault'), internal=bool(rec.get('internal')))

    def kill_all_children(self):
        for rec in self.procs.values():
            rec['dead'] = True

    def running_truth(self):
        """ namespecs truly in STARTING/BACKOFF/RUNNING/STOPPING in this Supervisor. """
        res = {}
        for group in self.sd.process_groups.values():
            for proc in group.processes.values():
                res[f'{group.config.name}:{proc.config.name}'] = proc.get_state()
        return res


class Behaviour:
    """ Behaviour script of one process on one instance: a list of lives, the last one repeating. """

    def __init__(self, lives):
        self.lives = lives or [{}]
        self.idx = 0

    def peek(self, world):
        return self.lives[min(self.idx, len(self.lives) - 1)]

    def next_life(self, world):
        life = self.lives[min(self.idx, len(self.lives) - 1)]
        self.idx += 1
        return life


class World:
    """ The simulated cluster: virtual time, event heap, instances, network, observation streams. """

    def __init__(self, scenario, seed=0, echo=0, use_publisher=False, keep_events=True):
        global _WORLD
        install_patches()
        self.scenario = scenario
        self.seed = seed
        self.rng = random.Random(seed)
        self.echo = echo or int(os.environ.get('VSIM_ECHO', '0'))
        self.use_publisher = use_publisher
        self.now = BASE_TIME
        self.heap = []
        self.seq = 0
        self.pid_seq = 100
        self.stack = []
        self.current = None
        self.steps = 0
        self.events = []
        self.keep_events = keep_events
        self.listeners = []      # callables(ev dict)
        self.ext_cb = None
        self.hook_cbs = {}       # name -> [callable(inst, *args)]
        self.specs = scenario['instances']
        self.hosts = {}
        for spec in self.specs:
            self.hosts[spec['ip']] = (f"node{spec['node']}", [], [spec['ip']])
        self.instances = {}      # nick -> current SimInstance (alive or last)
        self.by_identifier = {f"{s['ip']}:{s['port']}": s['nick'] for s in self.specs}
        self.incs = {}
        self.cut = set()         # directed (src nick, dst nick) pairs that are unreachable
        self.behaviours = {}
        self.hook_exceptions = 0
        sched = scenario.get('sched', {})
        self.delay_profile = sched.get('delay', {'kind': 'uniform', 'lo': 0.001, 'hi': 0.05})
        self.loop_period = tuple(sched.get('loop_period', (0.3, 1.0)))
        self.service_time = sched.get('service_time', 0.0005)
        self.cut_block = sched.get('cut_block', [0.0, 2.0])
        self.slow_links = {tuple(k.split('>')): v for k, v in sched.get('slow_links', {}).items()}
        self.tmpdir = tempfile.mkdtemp(prefix='vsim_')
        self.rules_path = None
        self.rpc_seq = 0
        # normal executions stay below 10000 scheduler steps and a few hundred start requests (measured); a restart
        # storm (e.g. a program that cannot be spawned with a RESTART_APPLICATION strategy) is cut
        self.max_steps = scenario.get('max_steps', 30000)
        self.max_start_requests = scenario.get('max_start_requests', 4000)
        self.start_requests_seen = 0
        self.hook_step, self.hooks_in_step = -1, 0
        self.handshake_skew = scenario.get('sched', {}).get('handshake_skew')
        self.max_hooks_per_step = scenario.get('max_hooks_per_step', 20000)
        self.restart_delay = sched.get('restart_delay', (0.5, 3.0))
        self.auto_reboot = scenario.get('auto_reboot', True)
        self.msg_filter = None   # callable(world, src_inst, dst_identifier, method, args) -> 'drop' | None
        self.puppets = {}        # nick -> scripted peer (L2): object with answer(src, method, args) and latency(method)
        self.manual = False      # L2: proxy steps are run by the harness, not by the scheduler
        _WORLD = self

    # -- context -----------------------------------------------------------------------------------
    class _Ctx:
        def __init__(self, world, inst):
            self.world, self.inst = world, inst

        def __enter__(self):
            w = self.world
            w.stack.append((w.current, events.callbacks))
            w.current = self.inst
            events.callbacks = self.inst.callbacks

        def __exit__(self, *exc):
            w = self.world
            w.current, events.callbacks = w.stack.pop()
            return False

    def enter(self, inst):
        return World._Ctx(self, inst)

    def wall(self):
        cur = self.current
        return self.now + (cur.spec.get('wall_off', 0.0) + cur.step_skew if cur else 0.0)

    def mono(self):
        cur = self.current
        if cur is None:
            return self.now - BASE_TIME
        value = self.now - BASE_TIME + cur.spec.get('mono_off', 0.0)
        if value <= cur.last_mono:
            value = cur.last_mono + 1e-7
        cur.last_mono = value
        # time spent so far in the XML-RPCs of the proxy step being run (seen by that 'thread' only)
        return value + cur.step_skew

    # -- events / observation ---------------------------------------------------------------------
    def emit(self, _kind, **fields):
        fields['k'] = _kind
        fields['t'] = self.now
        if self.keep_events:
            self.events.append(fields)
        for listener in self.listeners:
            listener(fields)

    def at(self, when, fn, *args):
        self.seq += 1
        heapq.heappush(self.heap, (when, self.seq, fn, args))

    def wake(self, inst, when):
        self.at(max(when, self.now), inst.wake_event)

    def run_until(self, t_end, stop=None):
        heap = self.heap
        while heap and heap[0][0] <= t_end:
            when, _, fn, args = heapq.heappop(heap)
            if when > self.now:
                self.now = when
            fn(*args)
            self.steps += 1
            if self.steps > self.max_steps:
                raise Runaway(f'more than {self.max_steps} scheduler steps')
            if self.start_requests_seen > self.max_start_requests:
                raise Runaway(f'more than {self.max_start_requests} start requests')
            if stop is not None and stop():
                return True
        if t_end > self.now:
            self.now = t_end
        return False

    def run_for(self, duration, stop=None):
        return self.run_until(self.now + duration, stop)

    # -- configuration files -----------------------------------------------------------------------
    def behaviour(self, inst, namespec):
        key = f'{inst.nick}/{namespec}'
        beh = self.behaviours.get(key)
        if beh is None:
            table = self.scenario.get('behaviours', {})
            lives = table.get(key) or table.get(namespec) or table.get('*') or [{}]
            beh = self.behaviours[key] = Behaviour(lives)
        return beh

    def set_behaviour(self, nick, namespec, lives):
        self.behaviours[f'{nick}/{namespec}'] = Behaviour(lives)

    def write_rules(self):
        if self.rules_path is None and self.scenario.get('rules_xml'):
            self.rules_path = os.path.join(self.tmpdir, 'rules.xml')
            with open(self.rules_path, 'w') as fd:
                fd.write(self.scenario['rules_xml'])
        return self.rules_path

    def supvisors_list(self, spec):
        items = spec.get('supvisors_list')
        if items is None:
            items = [f"<{s['nick']}>{s['ip']}:{s['port']}" for s in self.specs]
        return items

    def write_conf(self, inst):
        spec = inst.spec
        opts = dict(self.scenario.get('options', {}))
        opts.update(spec.get('options', {}))
        lines = ['[supervisord]', 'logfile=/dev/null', 'nodaemon=true', 'silent=true',
                 f"identifier={spec['nick']}", f'pidfile={self.tmpdir}/{spec["nick"]}.pid',
                 f'childlogdir={self.tmpdir}', '',
                 '[inet_http_server]', f"port=:{spec['port']}", '',
                 '[rpcinterface:supervisor]',
                 'supervisor.rpcinterface_factory = supervisor.rpcinterface:make_main_rpcinterface', '',
                 '[rpcinterface:supvisors]',
                 'supervisor.rpcinterface_factory = supvisors.plugin:make_supvisors_rpcinterface',
                 'supvisors_list=' + ','.join(self.supvisors_list(spec)),
                 'stats_enabled=false']
        rules = self.write_rules()
        if rules:
            lines.append(f'rules_files={rules}')
        disabilities = spec.get('disabled')
        if disabilities is not None:
            path = os.path.join(self.tmpdir, f"{spec['nick']}_disabilities.json")
            if not os.path.exists(path):
                import json
                with open(path, 'w') as fd:
                    json.dump({name: True for name in disabilities}, fd)
            lines.append(f'disabilities_file={path}')
        for key, value in opts.items():
            lines.append(f'{key}={value}')
        lines.append('')
        for group_name, group in spec.get('groups', {}).items():
            lines += [f'[group:{group_name}]', 'programs=' + ','.join(group.keys()), '']
        written = set()
        for group_name, group in spec.get('groups', {}).items():
            for prog_name, prog in group.items():
                if prog_name in written:
                    continue
                written.add(prog_name)
                numprocs = prog.get('numprocs', 1)
                lines.append(f'[program:{prog_name}]')
                lines.append('command=/sim/%(group_name)s/%(program_name)s')
                if numprocs > 1:
                    lines.append(f'numprocs={numprocs}')
                    lines.append('numprocs_start=1')
                    lines.append('process_name=%(program_name)s_%(process_num)02d')
                lines.append('autostart=false')
                lines.append(f"autorestart={prog.get('autorestart', 'false')}")
                lines.append(f"startsecs={prog.get('startsecs', 1)}")
                lines.append(f"startretries={prog.get('startretries', 1)}")
                lines.append(f"stopwaitsecs={prog.get('stopwaitsecs', 2)}")
                lines.append(f"exitcodes={prog.get('exitcodes', '0')}")
                lines.append('stdout_logfile=NONE')
                lines.append('stderr_logfile=NONE')
                lines.append('')
        path = os.path.join(self.tmpdir, f"{spec['nick']}.conf")
        with open(path, 'w') as fd:
            fd.write('\n'.join(lines))
        return path

    # -- instances -----------------------------------------------------------------------------------
    def spec_of(self, nick):
        return next(s for s in self.specs if s['nick'] == nick)

    def start_instance(self, nick):
        spec = self.spec_of(nick)
        old = self.instances.get(nick)
        if old is not None and old.alive:
            return old
        inc = self.incs[nick] = self.incs.get(nick, 0) + 1
        inst = SimInstance(self, self.specs.index(spec), spec, inc)
        self.instances[nick] = inst
        inst.boot()
        return inst

    def crash_instance(self, nick):
        """ Abrupt loss of the node / supervisord and its children. """
        inst = self.instances.get(nick)
        if inst is None or not inst.alive:
            return
        inst.alive = False
        inst.http_open = False
        inst.kill_all_children()
        self.emit('crash', inst=nick, inc=inst.inc)

    def instance_exited(self, inst):
        """ Orderly end of supervisord (restart or shutdown order honoured). """
        inst.alive = False
        inst.http_open = False
        self.emit('exit', inst=inst.nick, inc=inst.inc, kind=inst.exit_kind)
        if inst.exit_kind == 'restart' and self.auto_reboot:
            lo, hi = self.restart_delay
            self.at(self.now + self.rng.uniform(lo, hi), self.start_instance, inst.nick)

    def live(self):
        return [inst for inst in self.instances.values() if inst.alive]

    def reachable(self, src_nick, dst_nick):
        return (src_nick, dst_nick) not in self.cut

    def cut_link(self, a, b, both=True):
        self.cut_count = getattr(self, 'cut_count', 0) + 1
        self.cut.add((a, b))
        if both:
            self.cut.add((b, a))
        self.emit('cut', a=a, b=b, both=both)

    def heal_link(self, a, b, both=True):
        self.cut_count = getattr(self, 'cut_count', 0) + 1
        self.cut.discard((a, b))
        if both:
            self.cut.discard((b, a))
        self.emit('heal', a=a, b=b, both=both)

    def partition(self, side_a, side_b):
        for a in side_a:
            for b in side_b:
                self.cut_link(a, b)

    def heal_all(self):
        for a, b in list(self.cut):
            self.heal_link(a, b, both=False)

    # -- transport -----------------------------------------------------------------------------------
    def draw_delay(self, src_nick, dst_nick):
        prof = self.slow_links.get((src_nick, dst_nick)) or self.delay_profile
        kind = prof.get('kind', 'uniform')
        rng = self.rng
        if kind == 'uniform':
            return rng.uniform(prof['lo'], prof['hi'])
        if kind == 'bursty':
            if rng.random() < prof.get('p', 0.1):
                return rng.uniform(prof['hi'], prof.get('max', 2.0))
            return rng.uniform(prof['lo'], prof['hi'])
        if kind == 'fixed':
            return prof['value']
        raise ValueError(kind)

    def schedule_proxy_step(self, proxy):
        if self.manual:
            return
        dst_nick = self.by_identifier.get(proxy.status.identifier, '?')
        when = max(self.now + self.draw_delay(proxy.inst.nick, dst_nick), proxy.next_free + self.service_time)
        if self.handshake_skew and proxy.ready:
            # not before the end of the step that pushed the message
            when = max(when, proxy.ready[-1])
        proxy.next_free = when
        proxy.pending_steps += 1
        self.at(when, proxy.step)

    def rpc(self, src_inst, dst_identifier, method, args, proxy=None, user=None):
        """ Synchronous XML-RPC src -> dst, atomic at the callee (single-threaded HTTP server). """
        self.rpc_seq += 1
        rid = self.rpc_seq
        src = src_inst.nick if src_inst else (user or 'user')
        dst_nick = self.by_identifier.get(dst_identifier)
        dst = self.instances.get(dst_nick) if dst_nick else None
        rec = {'id': rid, 'src': src, 'dst': dst_nick, 'method': method, 'args': args}
        if self.msg_filter is not None:
            verdict = self.msg_filter(self, src_inst, dst_nick, method, args)
            if verdict == 'drop':
                self.emit('rpc_drop', **rec)
                return None
        self.emit('rpc_call', src_inc=src_inst.inc if src_inst else 0, **rec)
        puppet = self.puppets.get(dst_nick)
        if puppet is not None:
            return self.rpc_puppet(puppet, src_inst, rec, proxy)
        # reachability
        if dst is None or not dst.alive or not dst.http_open:
            self.emit('rpc_fail', reason='refused', **rec)
            raise ConnectionRefusedError(errno.ECONNREFUSED, 'Connection refused')
        if src_inst is not None and not self.reachable(src, dst_nick):
            if proxy is not None and not proxy.waited:
                lo, hi = self.cut_block
                block = self.rng.uniform(lo, hi)
                if block > 0:
                    self.emit('rpc_block', delay=block, **rec)
                    raise _Blocked(block)
            self.emit('rpc_fail', reason='unreachable', **rec)
            raise OSError(errno.EHOSTUNREACH, 'No route to host')
        # marshalling of the request, as on the wire
        try:
            params, _ = xc.loads(xc.dumps(tuple(args), methodname=method))
        except Exception:
            self.emit('internal_error', where='rpc_marshal_request', inst=src, method=method, args=repr(args),
                      tb=traceback.format_exc())
            raise
        fault = None
        deferred = False
        with self.enter(dst):
            try:
                try:
                    value = traverse(dst.root, method, params)
                except RPCError as err:
                    fault = xc.Fault(err.code, err.text)
                    ctx = err.__context__
                    if isinstance(ctx, TypeError) and _tb_in_body(ctx.__traceback__):
                        # a TypeError raised by the method body, disguised by traverse() as INCORRECT_PARAMETERS
                        self.emit('rpc_typeerror', inst=dst.nick, inc=dst.inc, method=method, args=repr(args),
                                  tb=''.join(traceback.format_exception(type(ctx), ctx, ctx.__traceback__)))
                if fault is None:
                    if callable(value):
                        drec = DeferredResult(id=rid, method=method, args=repr(args), src=src)
                        dst.deferred.append((value, drec))
                        deferred = drec
                        body = None
                    else:
                        body = xmlrpc_marshal(value)
            except Exception:
                tb = traceback.format_exc()
                self.emit('internal_error', where='rpc_callee', inst=dst.nick, inc=dst.inc, method=method,
                          args=repr(args), tb=tb, src=src)
                if dst.alive:
                    dst.loop_tail()
                self.emit('rpc_fail', reason='http500', **rec)
                raise xc.ProtocolError(f'{dst_identifier}/RPC2', 500, 'Internal Server Error', {})
            # the rest of the callee's loop iteration runs right after the request has been served
            if dst.alive:
                dst.loop_tail()
        if self.handshake_skew and proxy is not None and src_inst is not None and dst is not src_inst and \
                method in HANDSHAKE_METHODS:
            # time spent by the proxy 'thread' in this XML-RPC of a handshake: what it pushes afterwards is delivered
            # that much later (and stamped accordingly), while publications of the peer keep arriving meanwhile
            src_inst.step_skew += self.rng.choice(self.handshake_skew)
        if fault is not None:
            self.emit('rpc_fault', code=fault.faultCode, text=fault.faultString, **rec)
            raise fault
        if deferred:
            self.emit('rpc_deferred', **rec)
            return deferred
        result = xc.loads(body)[0][0]
        self.emit('rpc_ret', result=result if self.keep_results(method) else None, **rec)
        return result

    def rpc_puppet(self, puppet, src_inst, rec, proxy):
        """ XML-RPC answered by a scripted peer (L2 engine). """
        method, args = rec['method'], rec['args']
        try:
            params, _ = xc.loads(xc.dumps(tuple(args), methodname=method))
            value = puppet.answer(rec['src'], method, params)
        except xc.Fault as fault:
            self.emit('rpc_fault', code=fault.faultCode, text=fault.faultString, **rec)
            raise
        except OSError:
            self.emit('rpc_fail', reason='refused', **rec)
            raise
        finally:
            if src_inst is not None and proxy is not None:
                src_inst.step_skew += puppet.latency(method)
        result = xc.loads(xc.dumps((value,), methodresponse=True, allow_none=True))[0][0]
        self.emit('rpc_ret', result=result if self.keep_results(method) else None, **rec)
        return result

    @staticmethod
    def keep_results(method):
        return not method.startswith('supervisor.sendRemoteCommEvent')

    def user_rpc(self, nick, method, *args):
        """ XML-RPC issued by an external client. Returns ('ok', value) | ('fault', code, text) |
        ('refused',) | ('http500',) | ('deferred', record). """
        inst = self.instances.get(nick)
        identifier = f"{self.spec_of(nick)['ip']}:{self.spec_of(nick)['port']}"
        try:
            value = self.rpc(None, identifier, method, args, user='user')
        except xc.Fault as fault:
            return 'fault', fault.faultCode, fault.faultString
        except xc.ProtocolError:
            return ('http500',)
        except OSError:
            return ('refused',)
        if isinstance(value, DeferredResult):
            return 'deferred', value
        return 'ok', value

    # -- hooks on live objects ---------------------------------------------------------------------
    def on_hook(self, name, cb):
        self.hook_cbs.setdefault(name, []).append(cb)

    def install_hooks(self, inst):
        """ Attribute wrappers installed on the instance objects (DESIGN.md 2.3). """
        sv = inst.supvisors
        world = self
        rpc_handler = sv.rpc_handler

        def wrap(obj, attr, name):
            orig = getattr(obj, attr)
            cbs = world.hook_cbs

            def wrapper(*args, **kw):
                if name == 'send_start_process':
                    world.start_requests_seen += 1
                if world.hook_step != world.steps:
                    world.hook_step, world.hooks_in_step = world.steps, 0
                world.hooks_in_step += 1
                if world.hooks_in_step > world.max_hooks_per_step:
                    raise Livelock(f'{inst.nick}: {name} called more than {world.max_hooks_per_step} times within one '
                                   f'scheduler step at vt={round(world.now - BASE_TIME, 3)}')
                world.emit('hook', name=name, inst=inst.nick, inc=inst.inc,
                           args=args if name.startswith('send_') else None)
                for cb in cbs.get(name, ()):
                    cb(inst, *args, **kw)
                try:
                    result = orig(*args, **kw)
                except Exception:
                    # the last-resort guards of the code under test swallow the exception: what the monitors evaluate
                    # after the dispatch must be evaluated all the same (the state reached is what the instance keeps)
                    world.hook_exceptions += 1
                    for cb in cbs.get(name + ':after', ()):
                        cb(inst, *args, **kw)
                    raise
                for cb in cbs.get(name + ':after', ()):
                    cb(inst, *args, **kw)
                return result
            setattr(obj, attr, wrapper)

        def wrap_quiet(obj, attr, name):
            # frequent entry points: no event record, callbacks before and after
            orig = getattr(obj, attr)
            cbs = world.hook_cbs

            def wrapper(*args, **kw):
                for cb in cbs.get(name, ()):
                    cb(inst, *args, **kw)
                try:
                    result = orig(*args, **kw)
                except Exception:
                    # the last-resort guards of the code under test swallow the exception: what the monitors evaluate
                    # after the dispatch must be evaluated all the same (the state reached is what the instance keeps)
                    world.hook_exceptions += 1
                    for cb in cbs.get(name + ':after', ()):
                        cb(inst, *args, **kw)
                    raise
                for cb in cbs.get(name + ':after', ()):
                    cb(inst, *args, **kw)
                return result
            setattr(obj, attr, wrapper)

        wrap_quiet(sv.fsm, 'on_timer_event', 'fsm_timer')
        wrap_quiet(sv.fsm, 'on_process_state_event', 'fsm_process_event')
        wrap_quiet(sv.fsm, 'on_state_event', 'fsm_state_event')
        wrap_quiet(sv.context, 'on_tick_event', 'ctx_tick')
        wrap_quiet(sv.context, 'on_local_tick_event', 'ctx_local_tick')
        wrap_quiet(sv.context, 'on_timer_event', 'ctx_timer')
        wrap_quiet(sv.context, 'on_instance_failure', 'ctx_instance_failure')

        for attr in ('send_start_process', 'send_stop_process', 'send_restart', 'send_shutdown',
                     'send_restart_all', 'send_shutdown_all', 'send_check_instance', 'send_state_event',
                     'send_process_added_event', 'send_process_removed_event'):
            wrap(rpc_handler, attr, attr)
        wrap(sv.state_modes, 'update_instance_state', 'instance_state')
        wrap(sv.listener, 'force_process_state', 'force_process_state')
        for attr in ('start_applications', 'start_application', 'start_process'):
            wrap(sv.starter, attr, 'starter_' + attr)
        for attr in ('stop_applications', 'stop_application', 'stop_process'):
            wrap(sv.stopper, attr, 'stopper_' + attr)

    # -- helpers -------------------------------------------------------------------------------------
    def quiescent(self):
        for inst in self.live():
            for proxy in inst.supvisors.rpc_handler.proxy_server.proxies.values():
                if proxy.fifo and not proxy.dead:
                    return False
            if inst.deferred:
                return False
            for status in inst.supvisors.context.instances.values():
                if status.state in (SupvisorsInstanceStates.CHECKING, SupvisorsInstanceStates.CHECKED,
                                    SupvisorsInstanceStates.FAILED):
                    return False
        return True

    def close(self):
        global _WORLD
        if _WORLD is self:
            _WORLD = None
        events.callbacks = []
        shutil.rmtree(self.tmpdir, ignore_errors=True)


def _tb_in_body(tb):
    """ True if the TypeError was raised deeper than traverse()'s own frame, i.e. by the method body and not by
    a mismatch between the parameters and the method signature. """
    depth = 0
    while tb is not None:
        depth += 1
        tb = tb.tb_next
    return depth > 1
