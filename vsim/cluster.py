""" Helpers over a World: API peeks, cluster views, groups, convergence predicates. """
import xmlrpc.client as xc

from supervisor.xmlrpc import RPCError, traverse, xmlrpc_marshal

from .gen import effective_options
from .sim import BASE_TIME

TICK = 5.0
WORKING = ('ELECTION', 'DISTRIBUTION', 'OPERATION', 'CONCILIATION')
MASTER_DRIVEN = ('DISTRIBUTION', 'OPERATION', 'CONCILIATION', 'RESTARTING', 'SHUTTING_DOWN')


class Fault(Exception):
    def __init__(self, code, text):
        Exception.__init__(self, f'{code}: {text}')
        self.code, self.text = code, text


def peek(w, nick, method, *args):
    """ Read-only call of the public XML-RPC API of a live instance (same code path as a request: traverse +
    marshalling), without the transport, without events and without running the callee's loop. """
    inst = w.instances[nick]
    with w.enter(inst):
        try:
            value = traverse(inst.root, method, args)
        except RPCError as err:
            raise Fault(err.code, err.text)
        return xc.loads(xmlrpc_marshal(value))[0][0]


def view(w, nick):
    """ What an instance reports about the cluster through its status API. """
    state = peek(w, nick, 'supvisors.get_supvisors_state')
    master = peek(w, nick, 'supvisors.get_master_identifier')
    return {'state': state['fsm_statename'], 'master': master.get('identifier', ''),
            'master_declared': state['master_identifier'],
            'starting_jobs': state['starting_jobs'], 'stopping_jobs': state['stopping_jobs'],
            'instance_states': state['instance_states'], 'degraded': state['degraded_mode']}


def views(w):
    return {inst.nick: view(w, inst.nick) for inst in w.live()}


def ident(w, nick):
    spec = w.spec_of(nick)
    return f"{spec['ip']}:{spec['port']}"


def nick_of(w, identifier):
    return w.by_identifier.get(identifier)


def groups(w, vws=None):
    """ Connected components of the relation 'alive, mutually reachable, neither has isolated the other'.
    Returns (groups, cliques) where cliques[i] tells whether the component is a clique closed under the
    relation (the precondition of the group properties); non-clique components are not evaluated. """
    vws = vws or views(w)
    live = sorted(vws)

    def linked(a, b):
        if not (w.reachable(a, b) and w.reachable(b, a)):
            return False
        if vws[a]['instance_states'].get(ident(w, b)) == 'ISOLATED':
            return False
        if vws[b]['instance_states'].get(ident(w, a)) == 'ISOLATED':
            return False
        return True

    comps, seen = [], set()
    for a in live:
        if a in seen:
            continue
        comp, todo = [], [a]
        seen.add(a)
        while todo:
            x = todo.pop()
            comp.append(x)
            for y in live:
                if y not in seen and linked(x, y):
                    seen.add(y)
                    todo.append(y)
        comps.append(sorted(comp))
    cliques = [all(linked(a, b) for a in comp for b in comp if a < b) for comp in comps]
    return comps, cliques


def sync_satisfiable(w, group):
    """ Can the configured synchronization condition be met by this group without a user action? """
    eff = effective_options(w.scenario['options'])
    all_nicks = {s['nick'] for s in w.specs}
    members = set(group)
    for option in eff['synchro']:
        if option == 'TIMEOUT':
            return True
        if option in ('STRICT', 'LIST') and members == all_nicks:
            return True
        if option == 'CORE' and eff['core'] and set(eff['core']) <= members:
            return True
    return False


def master_agreement(w, group, vws):
    """ Returns (ok, master_nick, reason). """
    masters = {vws[n]['master'] for n in group}
    if len(masters) != 1:
        return False, None, f'members report different Masters: { {n: vws[n]["master"] for n in group} }'
    master = masters.pop()
    if not master:
        return False, None, 'no Master reported'
    mnick = nick_of(w, master)
    if mnick not in group:
        return False, mnick, f'Master {mnick} is not a member of the group {group}'
    for n in group:
        if vws[n]['instance_states'].get(master) != 'RUNNING':
            return False, mnick, f'{n} does not see the Master {mnick} RUNNING ' \
                                 f'({vws[n]["instance_states"].get(master)})'
    if vws[mnick]['master'] != master:
        return False, mnick, f'{mnick} does not regard itself as Master'
    return True, mnick, ''


def operational(w, group, vws, user_conciliation=False):
    """ C08: every member in its Master's state, OPERATION (or CONCILIATION left to the user), no job. """
    ok, mnick, reason = master_agreement(w, group, vws)
    if not ok:
        return False, reason
    mstate = vws[mnick]['state']
    allowed = ('OPERATION', 'CONCILIATION') if user_conciliation else ('OPERATION',)
    if mstate not in allowed:
        return False, f'Master {mnick} in {mstate}'
    for n in group:
        if vws[n]['state'] != mstate:
            return False, f'{n} in {vws[n]["state"]} while its Master {mnick} is in {mstate}'
        if vws[n]['starting_jobs'] or vws[n]['stopping_jobs']:
            return False, f'{n} reports jobs in progress {vws[n]["starting_jobs"]} {vws[n]["stopping_jobs"]}'
    return True, ''


def rule_pick(w, candidates):
    """ Documented rule: a core_identifiers member if any, else the lowest nick identifier. """
    eff = effective_options(w.scenario['options'])
    core = [c for c in eff['core'] if c in candidates]
    pool = core or list(candidates)
    return min(pool) if pool else None


def vt(w):
    return round(w.now - BASE_TIME, 3)


def _mask(value, keys):
    if isinstance(value, dict):
        return {k: ('*' if k in keys else _mask(v, keys)) for k, v in value.items()}
    if isinstance(value, list):
        return [_mask(v, keys) for v in value]
    return value


def status_snapshot(w, nick):
    """ Everything an instance reports through its status XML-RPCs; only the stamps taken at the time of the call
    are masked. Used by the non-interference oracles (C13). """
    inst = w.instances[nick]
    snap = {}
    stamped = ('now_monotonic',)
    for method in ('get_supvisors_state', 'get_all_instances_state_modes', 'get_all_applications_info',
                   'get_all_process_info', 'get_conflicts'):
        try:
            snap[method] = _mask(peek(w, nick, 'supvisors.' + method), stamped)
        except Fault as exc:
            snap[method] = f'fault {exc.code}'
    for method in ('get_master_identifier', 'get_all_instances_info', 'get_strategies', 'get_statistics_status'):
        try:
            snap[method] = peek(w, nick, 'supvisors.' + method)
        except Fault as exc:
            snap[method] = f'fault {exc.code}'
    for identifier in sorted(inst.supvisors.mapper.instances):
        for method in ('get_all_inner_process_info', 'get_network_info'):
            try:
                snap[f'{method}/{identifier}'] = peek(w, nick, 'supvisors.' + method, identifier)
            except Fault as exc:
                snap[f'{method}/{identifier}'] = f'fault {exc.code}'
    for app in snap['get_all_applications_info'] if isinstance(snap['get_all_applications_info'], list) else ():
        name = app['application_name']
        try:
            snap[f'get_application_rules/{name}'] = peek(w, nick, 'supvisors.get_application_rules', name)
        except Fault as exc:
            snap[f'get_application_rules/{name}'] = f'fault {exc.code}'
    return snap


def snapshot_diff(before, after, limit=4):
    """ Short description of the differences between two snapshots. """
    out = []
    for key in sorted(set(before) | set(after)):
        a, b = before.get(key), after.get(key)
        if a == b:
            continue
        if isinstance(a, list) and isinstance(b, list) and len(a) == len(b):
            for x, y in zip(a, b):
                if x != y:
                    if isinstance(x, dict) and isinstance(y, dict):
                        fields = {k: (x.get(k), y.get(k)) for k in set(x) | set(y) if x.get(k) != y.get(k)}
                        ident = x.get('identifier') or x.get('process_name') or x.get('name') or x.get('application_name')
                        out.append(f'{key}[{ident}]: {fields}')
                    else:
                        out.append(f'{key}: {x!r} -> {y!r}')
        elif isinstance(a, dict) and isinstance(b, dict):
            out.append(f'{key}: ' + str({k: (a.get(k), b.get(k)) for k in set(a) | set(b) if a.get(k) != b.get(k)}))
        else:
            out.append(f'{key}: {str(a)[:120]} -> {str(b)[:120]}')
    return out[:limit]
