""" Regenerates /verif/MANIFEST.json from the table below (run after adding a check). """
import json
import os

HERE = os.path.dirname(os.path.abspath(__file__))

ENGINE_L3 = 'clustersim (L3): N real Supvisors instances in one process'
ENGINE_L1 = 'refmodel (L1): real objects on a real booted context vs executable specification'
ENGINE_L2 = 'single (L2): one real booted instance, scripted peers'

TRUST_L3 = ('trusted base: the simulated OS layer, virtual clocks, network identity and transport of vsim/sim.py '
            '(DESIGN.md 2.1); Supervisor 4.2.5 and the whole supvisors package run unmodified')

CHECKS = {
    'C01': dict(engine=ENGINE_L3, technique='runtime monitoring: offline oracle over sampled API views + online hook '
                'on start/stop emissions, in a randomised discrete-event cluster simulation of the real code',
                text='held on K executions: agreement/validity of the Master per group at the end of a bounded quiet '
                     'period, kept-Master and documented-rule clauses in single-disturbance windows, Master-only '
                     'automatic requests at every emission; reach comes from generated topologies, options, fault '
                     'scripts and message delays, not from enumeration', ref='8/C01', note=TRUST_L3),
    'C02': dict(engine=ENGINE_L3, technique='runtime monitoring: online trace checker on every STATE publication '
                'captured at emission, against an edge table written from the statement',
                text='held on every state change observed (counts and transition multiset in the evidence); '
                     'Master-driven entries checked for a RUNNING Master and for Master precedence', ref='8/C02',
                note=TRUST_L3),
    'C03': dict(engine=ENGINE_L3, technique='runtime monitoring: online oracle at every start request emission (hook on '
                'rpc_handler.send_start_process) against the true Supervisor process states and the plan boundaries '
                '(hooks on the Starter entry points), with targets crashed at the emission of a request',
                text='held at every start request observed: lower-sequence processes / applications finished or '
                     'given up, sequence 0 never started automatically, nothing skipped, nothing requested after a '
                     'required failure with ABORT / STOP', ref='8/C03', note=TRUST_L3),
    'C04': dict(engine=ENGINE_L3, technique='runtime monitoring: online oracle at every start request emission: '
                'requester view through its status API, truth of the target Supervisor, rules model, independent '
                'node-load computation',
                text='held at every start request observed, except the listed known findings (load accounting across '
                     'applications started together)', ref='8/C04', note=TRUST_L3),
    'C05': dict(engine=ENGINE_L3, technique='runtime monitoring: online oracle fed by a wrapper on conciliate_conflicts '
                '(the conflict set the Master acts on), the stop / start requests at emission, the published states, '
                'the true process tables and spawn instants, and the status API of the Master sampled once per tick',
                text='held on every conciliation round, CONCILIATION entry / exit and tick sample observed: detection '
                     'delay, Master only, managed only, stop set per strategy (survivor by true spawn instants), '
                     'nothing else stopped, USER stops nothing, no conflict and OPERATION at the end', ref='8/C05',
                note=TRUST_L3),
    'C06': dict(engine=ENGINE_L3 + ' + ' + ENGINE_L1, technique='runtime monitoring: (L3) offline oracle over the '
                "recorded plans of the Master's Starter / Stopper (hooks on their entry points) against the action "
                "computed from the rules model and the Master's own status API read just before each invalidation, "
                'wrappers on the handler entry points of every instance; (L1) reference-model monitor of the four job '
                'sets and of the dispatches of the real RunningFailureHandler under random call histories',
                text='held on every loss acknowledged by a Master that stays Master until the cluster settles, except '
                     'the listed known finding (ELECTION aborts the failure handling), and on every handler history '
                     'generated', ref='8/C06', note=TRUST_L3),
    'C07': dict(engine=ENGINE_L3, technique='runtime monitoring: online shadow counter per (observer, peer) fed by the '
                'TICK deliveries and XML-RPC failures seen on the transport, evaluated around every periodic check '
                '(hooks on the timer / tick / failure entry points and on every peer state change), plus an edge '
                'table for the peer state graph and a before / after comparison of the status API at invalidation',
                text='held on every periodic check, peer state change and invalidation observed; accuracy judged for '
                     'peers seen RUNNING as stated', ref='8/C07', note=TRUST_L3),
    'C08': dict(engine=ENGINE_L3, technique='runtime monitoring: bounded-progress oracle (K / 2K ticks of virtual '
                'time) over sampled API views after state-triggered fault scripts',
                text='liveness restated as bounded progress after disturbances stop; verdict in logical ticks, never '
                     'wall-clock', ref='8/C08', note=TRUST_L3),
    'C09': dict(engine=ENGINE_L3, technique='runtime monitoring: online oracle at every stop request emission against '
                'the true process states and the stop plans (hooks on the Stopper entry points), offline exactly-once '
                'check of the supervisor.restart / shutdown orders over the recorded RPC history',
                text='held at every stop request observed and on every closing phase, except the listed known finding '
                     '(Master leaving before its last publications are delivered)', ref='8/C09', note=TRUST_L3),
    'C10': dict(engine=ENGINE_L3, technique='runtime monitoring: per-tick bounded-progress oracle over the status API '
                'under a lossy channel (dropped PROCESS publications), hostile process behaviours and failpoints',
                text='liveness restated as a bound in ticks after the last request; held on K executions except the '
                     'listed known finding (wait_exit job whose EXITED event is lost)', ref='8/C10', note=TRUST_L3),
    'C11': dict(engine=ENGINE_L1, technique='runtime monitoring: reference-model monitor compared with the real '
                'ProcessStatus after every operation of generated histories',
                text='held on every operation of the generated histories (counts per clause in the evidence)',
                ref='8/C11', note='trusted base: the 60-line executable specification in monitors/c11_process.py; '
                                  'real ProcessStatus on a real booted Supvisors context'),
    'C12': dict(engine=ENGINE_L3, technique='runtime monitoring: offline oracle at quiescence comparing the status API '
                'of every member of a group with each other and with the true process tables, with a mechanism '
                'classifier fed by online hooks (peer states, snapshots, truth events)',
                text='held at quiescence on K executions, except the listed known finding (events lost in the '
                     'handshake window)', ref='8/C12', note=TRUST_L3),
    'C13': dict(engine=ENGINE_L2, technique='runtime monitoring: non-interference oracle (full status snapshot through '
                'the status XML-RPCs before / after every injected message) and reference model of the handshake, on one '
                'real booted instance whose peers are scripted and whose proxy steps are scheduled one message at a '
                'time by a randomised driver; plus an offline checker over the recorded history of the REAL proxy '
                'threads (real SupervisorProxyServer / SupervisorProxyThread run / stop / join, recording XML-RPC '
                'client that hangs): nothing leaves the queue of the proxy of an isolated peer once it has been stopped',
                text='held on every injected message and every handshake outcome observed (isolated peers: all message '
                     'kinds; peers not yet admitted: process state / removal / disability events; stale and duplicated '
                     'handshake results; mismatching origin), silence and permanence on every isolation observed',
                ref='8/C13', note='trusted base: the simulated OS layer, clocks and transport of vsim/sim.py, the '
                'scripted peers of vsim/l2.py (payloads derived from the real instance own answers); Supervisor 4.2.5 '
                'and the whole supvisors package run unmodified'),
    'C14': dict(engine=ENGINE_L1, technique='runtime monitoring: reference-model monitor on the real '
                'get_supvisors_instance / strategies / Starter with generated load tables on a real booted context',
                text='held on every generated choice: the chosen instance is eligible and no eligible instance is '
                     'strictly better under the strategy key; whole-application placements (SINGLE_INSTANCE / '
                     'SINGLE_NODE) checked on the start requests really emitted by the Starter', ref='8/C14',
                note='trusted base: the reference of monitors/c14_placement.py; peers admitted through the real '
                     'identification / state-setter entry points, no mock of the code under test'),
    'C15': dict(engine=ENGINE_L1, technique='runtime monitoring: reference-model monitor on the real '
                'ApplicationStatus + audit-hook (sys.addaudithook) and before/after snapshot monitors around formula '
                'evaluation; plus, on clusters of real instances (L3), the application state / failures each instance '
                'reports at quiescence against the definition over the process states the same instance reports',
                text='held on every generated state vector and formula: state and major/minor failure equal the '
                     'definition, valid formulas equal an independent evaluator, hostile formulas raise nothing, '
                     'execute nothing (audit events) and change nothing', ref='8/C15',
                note='trusted base: the definition and evaluator of monitors/c15_application.py; CPython audit '
                     'events for compile/exec/import/open/os/subprocess/socket'),
    'C16': dict(engine=ENGINE_L3, technique='runtime monitoring: log / exception / thread-death monitors active in '
                'cluster executions under the full fault matrix and under run-time changes of the Supervisor '
                'configuration (numprocs, enable / disable, groups removed / added), documented-fault oracle on the '
                'answers of these requests, plus tick-progress assertion',
                text='held on K executions: no traceback reached a last-resort guard, no non-RPCError left an '
                     'XML-RPC method, no proxy thread died, tick counters kept advancing', ref='8/C16', note=TRUST_L3),
    'C17': dict(engine=ENGINE_L3, technique='runtime monitoring: online oracle around every probed XML-RPC (gate table '
                'written from the statement against the state the instance reports just before the call; full status '
                'snapshot and emission counters before / after every rejected call) while a real history drives the '
                'cluster through every Supvisors state',
                text='held on every (state, method, role, parameter class) probe made; the matrix is sampled, its '
                     'coverage (cells reached, probes per state) is reported and floored', ref='8/C17 + Appendix A',
                note=TRUST_L3),
    'C18': dict(engine=ENGINE_L1, technique='runtime monitoring: reference-model monitor on the real Parser (lxml+XSD '
                'and ElementTree modes), rules classes and SupvisorsOptions with generated documents and option sets',
                text='held on every generated lookup and option set: field-by-field equality with a reference '
                     'resolver written from the documentation; termination = completion of every lookup (cyclic and '
                     'deep model chains included), exceptions are violations', ref='8/C18',
                note='trusted base: the reference resolver of monitors/c18_rules.py (documentation reading stated '
                     'in its ASSUMPTIONS)'),
    'C19': dict(engine=ENGINE_L3, technique='runtime monitoring: non-interference oracle (full status snapshot of every '
                'instance, queued messages and emission counters before / after 1-5 predictions) and comparison of the '
                'predicted placement with the start requests recorded when the real start is then issued from the same '
                'situation in the same run',
                text='held on every prediction round observed, except the listed known finding (multi-process wildcard '
                     'start_process is not one plan)', ref='8/C19', note=TRUST_L3),
    'C20': dict(engine=ENGINE_L1, technique='runtime monitoring: structural invariant walked after every push of '
                'generated sample streams into the real statistics compilers, with a shadow period gate',
                text='held after every push: bounded, aligned, period-gated, CPU and I/O ranges, stopped process '
                     'dropped', ref='8/C20', note='trusted base: the stream generator (non-decreasing jiffies, '
                                                  'constant core count per identifier)'),
}


def main():
    ids = [json.loads(line)['id'] for line in open(os.path.join(HERE, 'properties.jsonl'))]
    checks = []
    for pid in ids:
        c = CHECKS.get(pid)
        if not c:
            continue
        checks.append({'property_id': pid,
                       'quick_cmd': f'./check {pid} --tier quick',
                       'thorough_cmd': f'./check {pid} --tier thorough',
                       'evidence_file': f'/verif/evidence/{pid}.json',
                       'replay_cmd_template': f'./check {pid} --replay {{path}}',
                       'engine': c['engine'],
                       'level_claimed': {'category': c.get('level', 'exploration'), 'text': c['text'],
                                         'design_ref': c['ref']},
                       'level_note': c['note'],
                       'technique': c['technique']})
    manifest = {
        'version': 1,
        'setup_cmd': 'mkdir -p /verif/evidence && /venv/bin/python -m compileall -q /verif/vsim /verif/monitors '
                     '/verif/workloads >/dev/null 2>&1; true',
        'hooks': {'guard': 'SUPVISORS_VERIF',
                  'enable': 'no source hook is needed: every observation point is attached from /verif at run time '
                            '(SupervisorProxyServer.klass, logger, external publisher, XML-RPC interface, attribute '
                            'wrappers on live objects)',
                  'baseline_off_cmd': 'cd /repo && /venv/bin/python -m pytest -ra -q -p no:cacheprovider '
                                      '--timeout=900 --continue-on-collection-errors',
                  'source_commits': [], 'add_only': True},
        'engines': [
            {'name': 'clustersim', 'path': 'vsim/sim.py',
             'serves_properties': [p for p in ids if ENGINE_L3 in CHECKS.get(p, {}).get('engine', '')],
             'kind_free_text': ENGINE_L3 + ' (real Supervisor 4.2.5 and supvisors code over a simulated OS layer, '
                               'virtual clocks and transport; randomised discrete-event scheduler, failpoints)'},
            {'name': 'scripted-peers', 'path': 'vsim/l2.py',
             'serves_properties': [p for p in ids if ENGINE_L2 in CHECKS.get(p, {}).get('engine', '')] + ['C16'],
             'kind_free_text': ENGINE_L2 + ' (proxy steps scheduled one message at a time by the driver, handshake '
                               'latency model, messages injected through supervisor.sendRemoteCommEvent)'},
            {'name': 'single', 'path': 'vsim/single.py',
             'serves_properties': [p for p in ids if ENGINE_L1 in CHECKS.get(p, {}).get('engine', '')],
             'kind_free_text': ENGINE_L1}],
        'checks': checks,
        'notes': 'Runtime monitoring only (DESIGN.md). exit 0 held / 1 VIOLATION / 2 INCONCLUSIVE. '
                 'known_findings.json lists genuine defects by mechanism key (KNOWN-FINDING lines, exit 0). '
                 './check <ID> [--tier quick|thorough] [--seed N]; VERIF_SEED / VERIF_TIER honoured; VERIF_REPO selects '
                 'the tree under test (default /repo). ./selftest <patch> <ID> runs a check against a patched scratch '
                 'copy. DESIGN.md section 11 lists what was built, fixed, found and corrected.',
        'not_applicable': [{'property_id': p, 'reason': 'no check registered'} for p in ids if p not in CHECKS]}
    with open(os.path.join(HERE, 'MANIFEST.json'), 'w') as fd:
        json.dump(manifest, fd, indent=1)
    print('checks:', [c['property_id'] for c in checks])


if __name__ == '__main__':
    main()
