""" C15 - application state and operational status follow their definition; formula evaluation is safe.

Reference-model monitor on the real ApplicationStatus / ApplicationRules / Parser.load_status with real
ProcessStatus objects; an audit hook (sys.addaudithook) watches for anything executed besides the evaluator's own
all([...]) / any([...]) literal, and a before/after snapshot watches for side effects on the application.
"""
import copy
import random
import sys
import re
import traceback
import xml.etree.ElementTree as ET

from vsim.single import Single

PROPERTY = 'C15'
LEVEL = 'exploration'
RULE = ('generated applications (1-6 processes, managed or not, required flags, sequences) with generated process '
        'state vectors (all 8 Supervisor states, expected/unexpected exits, forced states); (a) no formula: state '
        'and major/minor failure compared with the definition; (b) valid formulas: random trees over exact names, '
        'single- and multi-matching patterns with and/or/not/any/all, compared with an independent evaluator; '
        '(c) invalid or hostile formulas (attribute calls, lambdas, comprehensions, statements, imports, f-strings, '
        'arithmetic, unknown functions, empty all(), keyword arguments, non-matching and ill-formed patterns, deep '
        'nesting): no exception, major failure, no audit event (compile/exec/import/open/os/subprocess/socket) '
        'beyond the evaluator literal, application unchanged; non-trivial = comparison with at least one failed or '
        'forced process or any formula; distinct = distinct (formula class, state vector, flags) tuples')
ASSUMPTIONS = ['a formula operand is true when the process is STARTING/BACKOFF/RUNNING or EXITED as expected '
               '(documentation of operational_status)',
               'a formula rejected when the rules are loaded (syntax error, several statements) is accepted either '
               'as a major failure or as a fall-back to the required-based status, but never as an error',
               'constructs whose meaning the statement leaves open (all(a, b), any() of a constant) only require '
               '"no exception, no side effect"']
FLOORS = {'quick': {'definition_comparisons': 20000, 'valid_formula_comparisons': 10000,
                    'hostile_formula_evaluations': 10000, 'audit_events_seen': 10000,
                    'nomatch_formula_evaluations': 5000, 'reported_applications_compared': 500,
                    'reported_failures_compared': 400},
          'thorough': {'definition_comparisons': 500000, 'valid_formula_comparisons': 250000,
                       'hostile_formula_evaluations': 250000, 'audit_events_seen': 250000,
                       'nomatch_formula_evaluations': 100000, 'reported_applications_compared': 9000,
                       'reported_failures_compared': 7000}}
ROUNDS = {'quick': 4000, 'thorough': 40000}
CASES = {'quick': 32, 'thorough': 64}

STOPPED, STARTING, RUNNING, BACKOFF, STOPPING, EXITED, FATAL, UNKNOWN = 0, 10, 20, 30, 40, 100, 200, 1000
STATES = [STOPPED, STARTING, RUNNING, BACKOFF, STOPPING, EXITED, FATAL, UNKNOWN]

HOSTILE = [
    '"{p}".upper()', '"{p}".__class__', '("{p}").__class__.__mro__', 'all()', 'any()', 'any("(")', 'all("[")',
    'any("*")', 'pass', 'import os', '__import__("os").system("true")', 'lambda: "{p}"', '(lambda: True)()',
    '[x for x in "{p}"]', 'all(x for x in ["{p}"])', 'all(["{p}"])', 'any(("{p}",))', 'f"{p}"', 'f"{{__import__}}"',
    '1', '1 + 1', '"{p}" + "{p}"', 'True', 'None', '"{p}" if "{p}" else "{p}"', 'print("{p}")', 'eval("1")',
    'exec("x=1")', 'open("/etc/passwd")', 'all("{p}", "{p}")', 'all(*["{p}"])', 'any("{p}", key=1)',
    'any(**{{}})', '"{p}" == "{p}"', '"{p}" < "{p}"', '"{p}" in "{p}"', '-"{p}"', '~"{p}"', 'not not not 1',
    '"{p}" and 1', '"{p}" or None', 'x', 'x = "{p}"', 'x := "{p}"', '(x := "{p}")', '"{p}"; "{p}"', 'del x',
    'assert "{p}"', 'raise Exception', 'yield', 'await x', 'all.__call__("{p}")', 'getattr(all, "x")("{p}")',
    'any(any)', 'all(all("{p}"))', 'any(not "{p}")', 'b"{p}"', '...', '"nomatch_xyz"', 'any("nomatch_xyz")',
    'all("nomatch_.*")', '"{p}" and "nomatch"', '"" ', "''", '"(?P<n>"', 'any("(?i)" + "{p}")', '"{p}"[0]',
    '"{p}"[::]', '{{"{p}"}}', '{{"{p}": 1}}', '("{p}", "{p}")', '["{p}"]', 'globals()', 'locals()',
    'type("X", (), {{}})', '"{p}".format()', '"%s" % "{p}"', 'not', 'and', '(', ')', 'any(', '"{p}',
    'all("{p}") if True else 0', 'any("{p}") is True', 'any("{p}") + 1', 'all("{p}")()', 'all("{p}").real',
    'ALL("{p}")', 'Any("{p}")', 'os.system("true")', 'supvisors', 'self', 'self.supvisors', 'node',
]


class Audit:
    """ Records what gets executed while the flag is on. """
    LITERAL = re.compile(r'^(all|any)\(\[(True|False)?(, (True|False))*\]\)$')

    def __init__(self):
        self.on = False
        self.events = []
        self.allowed = 0
        sys.addaudithook(self.hook)

    def hook(self, event, args):
        if not self.on:
            return
        if event == 'compile':
            source = args[0]
            if isinstance(source, bytes):
                source = source.decode(errors='replace')
            if isinstance(source, str) and self.LITERAL.match(source.strip()):
                self.allowed += 1
                return
            self.events.append((event, repr(source)[:200]))
        elif event == 'exec':
            code = args[0]
            names = set(getattr(code, 'co_names', ()))
            if getattr(code, 'co_filename', '') == '<string>' and names <= {'all', 'any'}:
                self.allowed += 1
                return
            self.events.append((event, repr(code)[:200]))
        elif event in ('import', 'open', 'os.system', 'subprocess.Popen', 'os.exec', 'os.posix_spawn', 'os.fork',
                       'socket.connect', 'socket.bind', 'os.remove', 'os.rename', 'os.mkdir', 'os.rmdir',
                       'builtins.input', 'ctypes.dlopen', 'os.chmod', 'os.putenv', 'os.kill'):
            self.events.append((event, repr(args)[:200]))


AUDIT = None


# a second family on L3: in clusters of real instances (application activity, kills, instance losses and restarts,
# run-time configuration changes) the application state / failures that EACH instance reports at quiescence are
# compared with the definition applied to the process states that the SAME instance reports at that instant
L3_KNOBS = {'n_min': 2, 'n_max': 4,
            'apps': {'n_apps': (1, 3), 'n_progs': (1, 4), 'seq_max': 2, 'startsecs': (0, 3), 'max_numprocs': 3, 'stopwaitsecs': (4, 12),
                     'per_instance_diff': 0.1, 'managed_p': 0.8, 'autorestart': ('false',)},
            'behaviours': ['normal'] * 4 + ['slow_stop', 'slow_stop', 'stubborn', 'stubborn', 'crash_early', 'exit_unexpected',
                           'exit_expected', 'no_file'],
            'actions': ['start_application', 'stop_application', 'restart_application', 'start_process', 'stop_process',
                        'stop_application', 'stop_process', 'kill_process', 'crash', 'crash', 'crash', 'restart', 'burst',
                        'update_numprocs',
                        'update_numprocs', 'remove_group', 'add_group', 'disable'],
            'n_actions': [2, 3, 4, 6, 8], 'early_p': 0.2, 'fence': 'false', 'gaps': [0.0, 0.05, 0.5, 2.0, 5.0, 12.0]}
L3_COUNT = {'quick': 240, 'thorough': 4000}


def plan(tier, seed):
    return [{'seed': seed * 104729 + i, 'rounds': ROUNDS[tier]} for i in range(CASES[tier])] + \
        [{'seed': seed * 1000003 + 700000 + i, 'family': 'reported'} for i in range(L3_COUNT[tier])]


class ReportedViewMonitor:
    """ L3: what an instance reports for an application = the definition over what it reports for its processes. """

    def __init__(self):
        self.violations, self.counters = [], {}

    def attach(self, run):
        self.run = run

    def on_livelock(self, run, exc):
        pass

    def count(self, name, n=1):
        self.counters[name] = self.counters.get(name, 0) + n

    def finish(self, run):
        from vsim.cluster import peek, views, Fault, TICK, vt
        w = run.world
        if not w.quiescent():
            w.run_for(3 * TICK)
        if not w.quiescent():
            self.count('reported_not_quiescent')
            return self.violations
        vws = views(w)
        for nick, view in vws.items():
            if view['state'] not in ('OPERATION', 'CONCILIATION'):
                continue
            try:
                apps = peek(w, nick, 'supvisors.get_all_applications_info')
                procs = peek(w, nick, 'supvisors.get_all_process_info')
            except Fault:
                continue
            for app in apps:
                name = app['application_name']
                model = run.model.get(name)
                if model is None or model.get('operational_status'):
                    continue
                mine = [p for p in procs if p['application_name'] == name]
                if not mine:
                    continue
                displayed = [p['statecode'] for p in mine]
                expected_state = ref_state(displayed)
                self.count('reported_applications_compared')
                if app['statename'] != expected_state:
                    self.violations.append({'key': 'C15/reported:state',
                                            'msg': f'{nick} reports application {name} {app["statename"]} at quiescence '
                                                   f'(vt={vt(w)}) while it reports its processes '
                                                   f'{[(p["process_name"], p["statename"]) for p in mine]}: the '
                                                   f'definition gives {expected_state}',
                                            'detail': {'case': run.describe()}})
                    continue
                # failures, from the required flags of the rules model (managed applications without formula)
                if not model['managed']:
                    continue
                flags = {}
                for p in mine:
                    prog = run.procs.get(f'{name}:{p["process_name"]}')
                    required = bool(prog and model['programs'][prog[1]].get('required_eff'))
                    flags[p['process_name']] = (p['statecode'], p['expected_exit'], required)
                any_req = any(failed(s, e) and r for s, e, r in flags.values())
                any_opt = any(failed(s, e) and not r for s, e, r in flags.values())
                exp_major = any_req or (expected_state != 'STOPPED' and
                                        any(s == STOPPED and r for s, e, r in flags.values()))
                exp_minor = any_opt and not exp_major
                self.count('reported_failures_compared')
                if app['major_failure'] != exp_major or app['minor_failure'] != exp_minor:
                    self.violations.append({'key': 'C15/reported:failure',
                                            'msg': f'{nick} reports application {name} major={app["major_failure"]} '
                                                   f'minor={app["minor_failure"]} at quiescence (vt={vt(w)}) while the '
                                                   f'definition over what it reports for the processes (state, expected '
                                                   f'exit, required) {flags} gives major={exp_major} minor={exp_minor}',
                                            'detail': {'case': run.describe()}})
        return self.violations


def payload(state, now_mono, expected):
    return {'name': 'x', 'group': 'app', 'state': state, 'statename': str(state), 'start': 10, 'stop': 20,
            'now': 1.7e9, 'pid': 1234, 'description': 'desc', 'spawnerr': '', 'expected': expected,
            'start_monotonic': now_mono - 5.0, 'stop_monotonic': 0.0, 'now_monotonic': now_mono, 'extra_args': '',
            'startsecs': 1, 'stopwaitsecs': 2, 'process_index': 0, 'program_name': 'x', 'disabled': False,
            'has_stdout': False, 'has_stderr': False}


def ref_state(displayed):
    if STOPPING in displayed:
        return 'STOPPING'
    if STARTING in displayed or BACKOFF in displayed:
        return 'STARTING'
    if RUNNING in displayed:
        return 'RUNNING'
    return 'STOPPED'


def failed(state, expected):
    return state in (FATAL, UNKNOWN) or (state == EXITED and not expected)


def leaf_ok(state, expected):
    return state in (STARTING, BACKOFF, RUNNING) or (state == EXITED and expected)


class FormulaGen:
    """ Random valid formulas with their independent evaluation. """

    def __init__(self, rng, names, status):
        self.rng, self.names, self.status = rng, names, status

    def single(self):
        name = self.rng.choice(self.names)
        if self.rng.random() < 0.3:
            # a pattern matching exactly this name
            cands = [name[:-1] + '.', name + '$', '^' + name, name.replace('_', '.', 1)]
            for pat in self.rng.sample(cands, len(cands)):
                if [n for n in self.names if re.match('^%s$' % pat, n)] == [name]:
                    return repr(pat), self.status[name]
        return self.quote(name), self.status[name]

    def quote(self, text):
        return '"%s"' % text if self.rng.random() < 0.5 else "'%s'" % text

    def multi(self):
        pats = ['.*', 'p.*', 'p[0-9]+', 'p(1|2|3)', 'p[1-3]', '.+', 'p\\d', 'p1|p2|p3|p4|p5|p6']
        self.rng.shuffle(pats)
        for pat in pats:
            matches = [n for n in self.names if re.match('^%s$' % pat, n)]
            if matches:
                return self.quote(pat), [self.status[n] for n in matches]
        return self.quote('.*'), [self.status[n] for n in self.names]

    def expr(self, depth):
        r = self.rng.random()
        if depth <= 0 or r < 0.25:
            return self.single()
        if r < 0.4:
            text, value = self.expr(depth - 1)
            if self.rng.random() < 0.1:
                k = self.rng.randint(2, 60)
                return 'not ' * k + f'({text})', (value if k % 2 == 0 else not value)
            return f'not ({text})', not value
        if r < 0.6:
            fn = self.rng.choice(['any', 'all'])
            if self.rng.random() < 0.75:
                text, values = self.multi()
            else:
                text, value = self.single()
                values = [value]
            return f'{fn}({text})', (any(values) if fn == 'any' else all(values))
        op = self.rng.choice(['and', 'or'])
        n = self.rng.choice([2, 2, 3])
        parts = [self.expr(depth - 1) for _ in range(n)]
        text = f' {op} '.join(f'({t})' for t, _ in parts)
        value = all(v for _, v in parts) if op == 'and' else any(v for _, v in parts)
        return text, value


def snapshot(app):
    return {'processes': {name: (p.state, p.forced_state, p.forced_reason, p.expected_exit,
                                 sorted(p.running_identifiers), copy.deepcopy(p.info_map),
                                 p.rules.required, p.rules.start_sequence)
                          for name, p in app.processes.items()},
            'rules': (app.rules.managed, app.rules.start_sequence, app.rules.stop_sequence,
                      app.rules.status_formula, list(app.rules.identifiers)),
            'sequences': ({k: [p.process_name for p in v] for k, v in app.start_sequence.items()},
                          {k: [p.process_name for p in v] for k, v in app.stop_sequence.items()})}


def run_reported_case(case):
    from workloads.apps import Run as AppsRun
    mon = ReportedViewMonitor()
    run = AppsRun(case, L3_KNOBS, [mon])
    violations = run.execute()
    counters = dict(mon.counters)
    uniq = {}
    for v in violations:
        uniq.setdefault(v['key'], v)
    return {'violations': list(uniq.values()), 'counters': counters,
            'signature': ('r|' + run.shape()) if mon.counters.get('reported_applications_compared') else None,
            'sample': None}


def run_case(case):
    if case.get('family') == 'reported':
        return run_reported_case(case)
    global AUDIT
    from supvisors.application import ApplicationStatus, ApplicationRules
    from supvisors.process import ProcessStatus, ProcessRules
    if AUDIT is None:
        AUDIT = Audit()
    rng = random.Random(case['seed'])
    single = Single(n=2, seed=case['seed'])
    counters = {'definition_comparisons': 0, 'valid_formula_comparisons': 0, 'hostile_formula_evaluations': 0,
                'rejected_at_load': 0, 'audit_events_seen': 0, 'forced_vectors': 0, 'major': 0, 'minor': 0}
    violations = []
    seen = set()
    sample = None
    try:
        sv = single.supvisors
        ident = single.identifiers[0]
        with single.ctx():
            for rnd in range(case['rounds']):
                single.advance(0.5)
                n = rng.randint(1, 6)
                names = [f'p{i + 1}' for i in range(n)]
                managed = rng.random() < 0.8
                rules = ApplicationRules(sv)
                rules.managed = managed
                app = ApplicationStatus('app', rules, sv)
                vector = {}
                for name in names:
                    prules = ProcessRules(sv)
                    if managed:
                        prules.start_sequence = rng.choice([0, 1, 2])
                        prules.required = rng.random() < 0.5 and prules.start_sequence > 0
                    proc = ProcessStatus('app', name, prules, sv)
                    state = rng.choice(STATES)
                    expected = rng.random() < 0.5 if state == EXITED else state != FATAL
                    proc.add_info(ident, payload(state, 100.0 + rnd, expected))
                    displayed = state
                    if rng.random() < 0.15:
                        forced = rng.choice([FATAL, STOPPED])
                        proc.force_state({'identifier': ident, 'state': forced, 'now_monotonic': 200.0 + rnd,
                                          'spawnerr': 'forced'})
                        displayed = forced
                        counters['forced_vectors'] += 1
                    app.add_process(proc)
                    vector[name] = (displayed, proc.expected_exit, prules.required)
                app.update_sequences()
                mode = rng.choice(['none', 'valid', 'valid', 'hostile', 'hostile', 'nomatch'])
                formula, expected_value, loaded = None, None, True
                if mode == 'valid':
                    status = {nm: leaf_ok(vector[nm][0], vector[nm][1]) for nm in names}
                    formula, expected_value = FormulaGen(rng, names, status).expr(rng.randint(0, 4))
                elif mode == 'nomatch':
                    # a well-formed formula in which ONE name / pattern matches no process of the application, at any
                    # place (leaf, argument of any / all, under not / and / or): the statement wants a major failure
                    status = {nm: leaf_ok(vector[nm][0], vector[nm][1]) for nm in names}
                    formula, _ = FormulaGen(rng, names, status).expr(rng.randint(0, 3))
                    literals = list(re.finditer(r'"[^"]*"|\'[^\']*\'', formula))
                    lit = rng.choice(literals)
                    bad = rng.choice(['zz_nomatch', 'q[0-9]+', 'nomatch_.*', 'p9[0-9]x', 'P1', 'p1 ', 'p', 'p[7-9]7'])
                    formula = formula[:lit.start()] + '"' + bad + '"' + formula[lit.end():]
                elif mode == 'hostile':
                    template = rng.choice(HOSTILE)
                    formula = template.format(p=rng.choice(names))
                    if rng.random() < 0.1:
                        depth = rng.randint(20, 90)
                        formula = 'not ' * depth + '"%s".x' % rng.choice(names) if rng.random() < 0.5 else \
                            '(' * depth + '"%s"' % rng.choice(names) + ')' * depth + '.x'
                if formula is not None:
                    elt = ET.fromstring('<application name="app"><operational_status></operational_status>'
                                        '</application>')
                    elt.find('operational_status').text = formula
                    try:
                        sv.parser.load_status(elt, 'operational_status', rules)
                    except Exception as exc:
                        violations.append({'key': f'C15/load-exception:{type(exc).__name__}',
                                           'msg': f'loading the formula {formula!r} raised '
                                                  f'{traceback.format_exc()[-600:]}'})
                        continue
                    loaded = rules.status_formula is not None
                    if not loaded:
                        counters['rejected_at_load'] += 1
                before = snapshot(app)
                AUDIT.events.clear()
                allowed_before = AUDIT.allowed
                AUDIT.on = True
                try:
                    # liveness probe of the audit hook itself (counted in audit_events_seen whatever the code under
                    # test does: an evaluator that no longer goes through eval() must not make the check inconclusive)
                    compile('all([True])', '<probe>', 'eval')
                    app.update()
                    app.update()
                    error = None
                except BaseException as exc:  # noqa
                    error = exc
                    tb = traceback.format_exc()
                finally:
                    AUDIT.on = False
                counters['audit_events_seen'] += AUDIT.allowed - allowed_before + len(AUDIT.events)
                after = snapshot(app)
                if error is not None:
                    cls = 'hostile' if mode == 'hostile' else mode
                    violations.append({'key': f'C15/exception:{type(error).__name__}',
                                       'msg': f'update() raised {type(error).__name__} with formula {formula!r} '
                                              f'({cls}) on vector {vector}: {tb[-700:]}'})
                    continue
                if AUDIT.events:
                    violations.append({'key': f'C15/side-effect:{AUDIT.events[0][0]}',
                                       'msg': f'formula {formula!r} caused audit events {AUDIT.events[:3]}'})
                if before != after:
                    violations.append({'key': 'C15/side-effect:mutation',
                                       'msg': f'formula {formula!r} changed the application: before={before} '
                                              f'after={after}'})
                displayed = [v[0] for v in vector.values()]
                ser = app.serial()
                problems = []
                exp_state = ref_state(displayed)
                if ser['statename'] != exp_state:
                    problems.append(f'state {ser["statename"]}, definition {exp_state}')
                any_failed_req = any(failed(s, e) and r for s, e, r in vector.values())
                any_failed_opt = any(failed(s, e) and not r for s, e, r in vector.values())
                if mode == 'none' or (formula is not None and not loaded and not ser['major_failure']):
                    # required-based definition
                    exp_major = any_failed_req or (exp_state != 'STOPPED' and
                                                   any(s == STOPPED and r for s, e, r in vector.values()))
                    exp_minor = managed and any_failed_opt and not exp_major
                    counters['definition_comparisons'] += 1
                    if ser['major_failure'] != exp_major:
                        problems.append(f'major_failure {ser["major_failure"]}, definition {exp_major}')
                    if ser['minor_failure'] != exp_minor:
                        problems.append(f'minor_failure {ser["minor_failure"]}, definition {exp_minor}')
                elif mode == 'valid':
                    counters['valid_formula_comparisons'] += 1
                    if not loaded:
                        problems.append('valid formula rejected when loaded')
                    elif ser['major_failure'] != (not expected_value):
                        problems.append(f'major_failure {ser["major_failure"]}, formula evaluates to {expected_value}')
                elif mode == 'nomatch':
                    counters['nomatch_formula_evaluations'] = counters.get('nomatch_formula_evaluations', 0) + 1
                    if not ser['major_failure']:
                        problems.append('no major failure reported although a name / pattern of the formula matches '
                                        'no process')
                else:
                    counters['hostile_formula_evaluations'] += 1
                    if not ser['major_failure']:
                        # constructs that the statement leaves open are not constrained
                        if not re.match(r'^(all|any)\(', formula.strip()) and formula.strip() not in ('True',):
                            problems.append('no major failure reported for an unsupported construct')
                        elif formula.strip() == 'True':
                            problems.append('no major failure reported for an unsupported construct')
                counters['major'] += ser['major_failure']
                counters['minor'] += ser['minor_failure']
                cls = mode if mode != 'hostile' else 'hostile:' + re.sub(r'p\d', 'P', formula)[:30]
                seen.add((cls, tuple(sorted(displayed)), managed))
                if sample is None and mode == 'valid' and len(formula) > 30:
                    sample = {'formula': formula, 'vector': {k: list(v) for k, v in vector.items()},
                              'major_failure': ser['major_failure']}
                if problems:
                    kind = problems[0].split(' ')[0]
                    violations.append({'key': f'C15/mismatch:{mode}:{kind}',
                                       'msg': '; '.join(problems) + f' - managed={managed} formula={formula!r} '
                                              f'vector(displayed, expected_exit, required)={vector}'})
                if len(violations) > 30:
                    break
    finally:
        single.close()
    counters['distinct_tuples'] = len(seen)
    # keep one violation per key
    uniq = {}
    for v in violations:
        uniq.setdefault(v['key'], v)
    return {'violations': list(uniq.values()), 'counters': counters, 'signature': f"{case['seed']}:{len(seen)}",
            'sample': sample}
