""" C12 - all instances agree on where processes run, and that view is true. """
from monitors.lib_apps import AgreementMonitor
from workloads.apps import Run

PROPERTY = 'C12'
LEVEL = 'exploration'
RULE = ('generated clusters whose processes change state continuously (automatic distribution, user start / stop / '
        'restart requests, kills, duplicates, backoff / exit behaviours) while instances start staggered, crash and '
        'are lost (one family: while processes that ignore SIGTERM are STOPPING there; one family: the Supervisor configuration changes at run time - numprocs up / down, programs disabled / enabled, groups removed and added again - so that processes appear and disappear); lossless transport (only the guards of the code drop events); oracle at quiescence: per process, '
        'identical running set and running state on every member of a group, equal to the truth of the Supervisors '
        'it sees RUNNING; non-trivial = quiescent run with at least one process truly running and two members '
        'compared; distinct = distinct (topology, strategies, distributions, actions) tuples')
ASSUMPTIONS = ['quiescence = all proxy FIFOs empty, no deferred call, no peer in CHECKING / CHECKED / FAILED']
FLOORS = {'quick': {'groups_evaluated': 150, 'process_views_compared': 3000, 'running_views_compared': 500,
                    'pairs_compared': 1500, 'numprocs_requests_served': 80, 'groups_removed': 25,
                    'host_reboots': 30},
          'thorough': {'groups_evaluated': 4000, 'process_views_compared': 80000, 'running_views_compared': 12000,
                       'pairs_compared': 40000, 'numprocs_requests_served': 1200, 'groups_removed': 400,
                       'host_reboots': 600}}
COUNT = {'quick': 1280, 'thorough': 12000}
BUDGET_S = {'quick': 55, 'thorough': 540}

KNOBS = {'n_min': 2, 'n_max': 4,
         'apps': {'n_apps': (1, 3), 'n_progs': (1, 4), 'seq_max': 2, 'startsecs': (0, 4), 'per_instance_diff': 0.1,
                  'managed_p': 0.7},
         'actions': ['start_application', 'stop_application', 'restart_application', 'start_process', 'stop_process',
                     'restart_process', 'kill_process', 'kill_process', 'crash', 'dup', 'dup', 'restart', 'restart',
                     'burst', 'burst', 'burst'],
         'early_p': 0.5, 'n_actions': [1, 2, 3, 4, 6, 8], 'fence': 'false'}


# an additional family: instances are lost while processes are STOPPING there (processes that ignore SIGTERM are
# asked to stop, then an instance crashes or restarts within stopwaitsecs)
STOPPING_KNOBS = {'n_min': 3, 'n_max': 4,
                  'apps': {'n_apps': (1, 2), 'n_progs': (2, 4), 'seq_max': 2, 'startsecs': (0, 2),
                           'stopwaitsecs': (10, 25), 'managed_p': 0.8, 'autorestart': ('false',)},
                  'behaviours': ['stubborn', 'stubborn', 'slow_stop', 'normal'],
                  'actions': ['stop_application', 'stop_process', 'stop_process'], 'then': ['crash'],
                  'n_actions': [1, 2, 3], 'gaps': [0.0, 0.3, 1.0, 2.5], 'early_p': 0.0, 'fence': 'false'}
STOPPING_COUNT = {'quick': 200, 'thorough': 3000}


# and a family with slow handshakes (each of its XML-RPCs takes 0 - 3 s): the process table read during a handshake is
# delivered after the events that the peer publishes meanwhile
SLOW_KNOBS = dict(KNOBS, handshake_skew=[0.0, 0.3, 1.0, 2.0, 3.0])


# and a family where the Supervisor configuration changes at run time (numprocs up / down, programs disabled / enabled,
# groups removed and added again) while processes are started and stopped: processes appear and disappear
DYN_KNOBS = {'n_min': 2, 'n_max': 4,
             'apps': {'n_apps': (1, 3), 'n_progs': (1, 3), 'seq_max': 2, 'startsecs': (0, 3), 'max_numprocs': 3,
                      'per_instance_diff': 0.1, 'managed_p': 0.7},
             'behaviours': ['normal'] * 6 + ['slow_stop', 'crash_early', 'exit_unexpected'],
             'actions': ['update_numprocs'] * 4 + ['enable', 'disable', 'remove_group', 'add_group', 'add_group',
                                                   'start_application', 'stop_application', 'restart_application',
                                                   'start_process', 'start_process', 'stop_process', 'burst',
                                                   'burst', 'restart'],
             'early_p': 0.1, 'n_actions': [2, 3, 4, 6, 8, 12], 'fence': 'false'}
DYN_COUNT = {'quick': 240, 'thorough': 3000}


# and a family where the HOST of an instance reboots (monotonic clock back near zero) while processes run there
REBOOT_KNOBS = dict(KNOBS, host_reboot_p=1.0, max_nodes=4, n_min=3,
                    actions=['restart', 'restart', 'restart', 'start_process', 'stop_process', 'kill_process', 'burst'],
                    n_actions=[1, 2, 3, 4])
REBOOT_COUNT = {'quick': 160, 'thorough': 3000}


def plan(tier, seed):
    return [{'seed': seed * 1000003 + 900000 + i, 'family': 'slow-handshake'} for i in range(COUNT[tier] // 8)] + \
        [{'seed': seed * 1000003 + i} for i in range(COUNT[tier])] + \
        [{'seed': seed * 1000003 + 800000 + i, 'family': 'lost-while-stopping'} for i in range(STOPPING_COUNT[tier])] + \
        [{'seed': seed * 1000003 + 600000 + i, 'family': 'dynconf'} for i in range(DYN_COUNT[tier])] + \
        [{'seed': seed * 1000003 + 700000 + i, 'family': 'host-reboot'} for i in range(REBOOT_COUNT[tier])]


def run_case(case):
    mon = AgreementMonitor()
    run = Run(case, {'lost-while-stopping': STOPPING_KNOBS, 'slow-handshake': SLOW_KNOBS, 'dynconf': DYN_KNOBS,
                     'host-reboot': REBOOT_KNOBS}.get(case.get('family'), KNOBS),
              [mon])
    violations = run.execute()
    nontrivial = mon.counters.get('running_views_compared', 0) > 0 and mon.counters.get('pairs_compared', 0) > 0
    return {'violations': violations, 'counters': run.counters,
            'signature': run.shape() if nontrivial else None, 'sample': run.describe()}
