""" C05 - conflicts are detected and conciliated exactly as the strategy says.

Observation points: every call of conciliate_conflicts (module-level wrapper: the conflict set the Master acts on),
every stop / start request emitted (Tracker), the published Supvisors states, the true process tables and spawn
instants, the status API of the Master sampled once per tick. """
from monitors.lib import Monitor
from monitors.lib_apps import RUN_CODES
from vsim.cluster import TICK, Fault, peek, views, groups, vt
from vsim.gen import effective_options

AMBIGUOUS = 3 * TICK     # copies started closer than that may be ordered either way (tick-granular uptime)


class ConciliationMonitor(Monitor):

    def __init__(self, tracker):
        Monitor.__init__(self)
        self.tracker = tracker

    def attach(self, run):
        Monitor.attach(self, run)
        w = run.world
        self.strategy = run.scenario['options'].get('conciliation_strategy', 'USER')
        self.rounds = []
        self.spawn_t = {}          # (nick, namespec) -> time of the last spawn
        self.state_of = {}         # (nick, inc) -> published state
        self.entered = {}          # (nick, inc) -> vt of the entry in CONCILIATION
        self.pending_detection = {}
        self.user_stops = []
        self.install_wrapper()
        w.listeners.append(self.on_event)
        w.on_hook('send_state_event', self.on_state)
        self.tracker.listeners_stop.append(self.on_stop)
        self.tracker.listeners_start.append(self.on_start)
        w.at(w.now + TICK, self.sample)

    # -- wrapper on the conciliation entry point ------------------------------------------------------
    def install_wrapper(self):
        import supvisors.statemachine as sm
        import supvisors.rpcinterface as ri
        import supvisors.strategy as st
        monitor = self
        original = st.conciliate_conflicts

        def wrapper(supvisors, strategy, conflicts):
            monitor.on_conciliate(supvisors, strategy, list(conflicts))
            return original(supvisors, strategy, conflicts)
        self._saved = (sm.conciliate_conflicts, ri.conciliate_conflicts)
        sm.conciliate_conflicts = wrapper
        ri.conciliate_conflicts = wrapper

    def remove_wrapper(self):
        import supvisors.statemachine as sm
        import supvisors.rpcinterface as ri
        sm.conciliate_conflicts, ri.conciliate_conflicts = self._saved

    def on_conciliate(self, supvisors, strategy, conflicts):
        w = self.run.world
        inst = w.current
        if inst is None or inst.supvisors is not supvisors:
            return
        self.close_round(inst)
        record = {'inst': inst.nick, 'inc': inst.inc, 't': w.now, 'step': w.steps, 'strategy': strategy.name,
                  'conflicts': {p.namespec: sorted(w.by_identifier.get(i) for i in p.running_identifiers)
                                for p in conflicts},
                  'closed': False, 'stops': [], 'starts': [],
                  # copies seen RUNNING whose start instant the Master never learnt (no STARTING event received: its
                  # uptime is then the whole monotonic clock of the host)
                  'unknown_start': {p.namespec for p in conflicts
                                    if any(p.info_map[i].get('start_monotonic', 0) == 0 and
                                           p.info_map[i].get('state') == 20 for i in p.running_identifiers)}}
        # the start instants as they are when the strategy decides (a stopped copy may be started again by somebody
        # else before the round closes)
        record['spawn_t'] = {(n, ns): self.spawn_t.get((n, ns), 0.0) for ns, copies in record['conflicts'].items()
                             for n in copies}
        # stops that were already in progress for a copy when the round begins
        record['open'] = {(r['namespec'], r['target_nick']) for r in self.tracker.open_stops
                          if r['sender'] == inst.nick and r['inc'] == inst.inc}
        self.rounds.append(record)
        self.count('conciliation_rounds')
        self.count('conciliation_rounds_' + strategy.name)
        self.count('conflicts_conciliated', len(conflicts))
        if len(conflicts) > 1:
            self.count('rounds_with_simultaneous_conflicts')
        model = self.run.model
        for namespec in record['conflicts']:
            app = namespec.split(':')[0]
            if app in model and not model[app]['managed']:
                self.violate('C05/unmanaged-conflict', f'{inst.nick} conciliates {namespec} of the unmanaged '
                             f'application {app} at vt={vt(w)}', case=self.run.describe())
        # the conciliation is the Master's business
        try:
            master = peek(w, inst.nick, 'supvisors.get_master_identifier').get('identifier', '')
        except Fault:
            master = ''
        if master != inst.identifier:
            self.violate('C05/non-master-conciliation', f'{inst.nick} conciliates at vt={vt(w)} while its Master is '
                         f'{w.by_identifier.get(master)}', case=self.run.describe())

    def current_round(self, nick, inc):
        for record in reversed(self.rounds):
            if record['inst'] == nick and record['inc'] == inc:
                return record if not record['closed'] else None
        return None

    # -- requests -----------------------------------------------------------------------------------
    def on_stop(self, inst, req):
        record = self.current_round(inst.nick, inst.inc)
        if record is not None:
            record['stops'].append((req['namespec'], req['target_nick'], req['t']))
        if self.state_of.get((inst.nick, inst.inc)) == 'CONCILIATION':
            self.count('stops_in_conciliation')
            self.check_stop_allowed(inst, req, record)

    def on_start(self, inst, req):
        record = self.current_round(inst.nick, inst.inc)
        if record is not None:
            record['starts'].append((req['namespec'], req['target_nick'], req['t']))

    def expected(self, record, namespec):
        """ (must_stop, may_stop): the copies the strategy stops for sure, and those it may stop. """
        w = self.run.world
        copies = record['conflicts'][namespec]
        strategy = record['strategy']
        if strategy == 'USER':
            return set(), set()
        if strategy in ('STOP', 'RESTART', 'RUNNING_FAILURE'):
            return set(copies), set(copies)
        # SENICIDE keeps the most recently started copy, INFANTICIDE the oldest one
        times = {n: record['spawn_t'].get((n, namespec), 0.0) for n in copies}
        if strategy == 'SENICIDE':
            best = max(times.values())
        else:
            best = min(times.values())
        keepers = {n for n, t in times.items() if abs(t - best) < AMBIGUOUS}
        must = set(copies) - keepers
        return must, set(copies)

    def check_stop_allowed(self, inst, req, record):
        """ No stop of a process that is not in conflict while the Master conciliates. """
        w = self.run.world
        namespec, target = req['namespec'], req['target_nick']
        if record is None:
            return
        if namespec in record['conflicts']:
            # which copy is the stop-target clause of C09; the conflict set may also have grown since the round began
            if record['strategy'] in ('SENICIDE', 'INFANTICIDE'):
                # at most all copies but one
                asked = {t for ns, t, _ in record['stops'] if ns == namespec}
                if asked >= set(record['conflicts'][namespec]) and self.other_cause(inst, namespec.split(':')[0]):
                    # e.g. the running failure strategy of a process lost with an instance (partition) applies too
                    self.count('all_copies_stopped_explained_by_another_plan')
                elif asked >= set(record['conflicts'][namespec]):
                    self.violate(f"C05/{record['strategy'].lower()}-stops-every-copy",
                                 f"{inst.nick} has asked every copy of {namespec} to stop "
                                 f"({sorted(asked)}) at vt={vt(w)}", case=self.run.describe())
            return
        # RUNNING_FAILURE widens to the application when the program's strategy says so; a user / failure-handler
        # plan in progress explains other stops
        app = namespec.split(':')[0]
        if record['strategy'] == 'RUNNING_FAILURE':
            for other in record['conflicts']:
                if other.split(':')[0] == app and other in self.run.procs:
                    strategy = self.run.prog_of(other)[1].get('running_failure_eff', 'CONTINUE')
                    if strategy in ('STOP_APPLICATION', 'RESTART_APPLICATION'):
                        return
        plan = req.get('plan')
        if plan and plan['kind'] == 'app' and record['strategy'] in ('RESTART', 'RUNNING_FAILURE') and \
                any(other.split(':')[0] == app and other in self.run.procs and
                    self.run.prog_of(other)[1].get('starting_failure_eff') == 'STOP'
                    for other in record['conflicts']):
            # the copy started again could not be placed: the starting failure strategy of the application applies
            self.count('stops_in_conciliation_explained_by_starting_failure')
            return
        if self.other_cause(inst, app):
            self.count('stops_in_conciliation_explained_by_another_plan')
            return
        self.violate('C05/stop-outside-conflicts', f"{inst.nick} asks {target} to stop {namespec} at vt={vt(w)} during "
                     f"the {record['strategy']} conciliation of {record['conflicts']}", case=self.run.describe())

    def other_cause(self, inst, app):
        """ A user request or a running failure of that application explains a stop plan. """
        w = self.run.world
        for action in self.run.actions:
            if action['kind'] in ('stop_application', 'restart_application', 'stop_process', 'restart_process',
                                  'restart_sequence', 'kill_process', 'crash', 'restart', 'partition'):
                return True
        return False

    # -- events -------------------------------------------------------------------------------------
    def on_event(self, ev):
        if ev['k'] == 'spawn':
            self.spawn_t[(ev['inst'], ev['namespec'])] = ev['t']

    def on_state(self, inst, payload):
        key = (inst.nick, inst.inc)
        state = payload['fsm_statename']
        old = self.state_of.get(key)
        if state == old:
            return
        self.state_of[key] = state
        w = self.run.world
        if state == 'CONCILIATION':
            self.entered[key] = w.now
            self.count('conciliation_entries')
            if payload.get('master_identifier') == inst.identifier:
                # the Master enters CONCILIATION only with a conflict of a managed application in its view
                try:
                    conflicts = peek(w, inst.nick, 'supvisors.get_conflicts')
                except Fault:
                    conflicts = None
                if conflicts is not None:
                    self.count('master_entries_checked')
                    managed = [c for c in conflicts if self.run.model.get(c['application_name'], {}).get('managed')]
                    if not managed:
                        self.violate('C05/conciliation-without-conflict',
                                     f'the Master {inst.nick} enters CONCILIATION at vt={vt(w)} with conflicts '
                                     f"{[(c['application_name'], c['process_name'], c['identifiers']) for c in conflicts]}",
                                     case=self.run.describe())
        elif old == 'CONCILIATION':
            # leaving for ELECTION (a new instance, a lost Master...) aborts the jobs: the round is not completed
            self.close_round(inst, evaluate=(state == 'OPERATION'))
            if state == 'OPERATION' and payload.get('master_identifier') == inst.identifier:
                # the Master goes back to OPERATION only when no conflict remains in its view
                try:
                    conflicts = peek(w, inst.nick, 'supvisors.get_conflicts')
                except Fault:
                    conflicts = []
                managed = [c for c in conflicts if self.run.model.get(c['application_name'], {}).get('managed')]
                self.count('master_exits_checked')
                if managed:
                    self.violate('C05/conciliation-left-with-conflicts',
                                 f'the Master {inst.nick} goes back to OPERATION at vt={vt(w)} with the conflicts '
                                 f"{[(c['application_name'], c['process_name'], c['identifiers']) for c in managed]}",
                                 case=self.run.describe())

    def close_round(self, inst, evaluate=True):
        """ The round ends (new round, or back to OPERATION): every copy the strategy stops has been asked to. """
        w = self.run.world
        record = self.current_round(inst.nick, inst.inc)
        if record is None:
            return
        record['closed'] = True
        if not evaluate:
            self.count('rounds_aborted')
            return
        tr = self.tracker
        for namespec, copies in record['conflicts'].items():
            must, _ = self.expected(record, namespec)
            asked = {t for ns, t, _ in record['stops'] if ns == namespec}
            self.count('round_conflicts_evaluated')
            for nick in must:
                if nick in asked or (namespec, nick) in record['open']:
                    continue
                # the copy may have ended by itself, or its instance may have been lost, in the meantime
                target = w.instances.get(nick)
                state = tr.truth.get((nick, namespec))
                if target is None or not target.alive or state not in RUN_CODES:
                    self.count('copies_gone_by_themselves')
                    continue
                if self.sees(inst, nick) != 'RUNNING':
                    continue
                mech = ''
                if namespec in record['unknown_start'] and record['strategy'] in ('SENICIDE', 'INFANTICIDE'):
                    mech = ':start-instant-of-a-copy-unknown-to-the-master'
                self.violate(f"C05/copy-not-stopped:{record['strategy']}{mech}",
                             f"{inst.nick} conciliated {namespec} running on {copies} with {record['strategy']} at "
                             f"vt={round(record['t'] - 1_700_000_000.0, 3)} but never asked {nick} to stop it "
                             f"(asked: {sorted(asked)}; round closed at vt={vt(w)})", case=self.run.describe())
        if record['strategy'] == 'USER' and record['stops'] and not self.other_cause(inst, None):
            self.violate('C05/user-strategy-stops', f"{inst.nick} emitted stop requests {record['stops']} during a "
                         f'USER conciliation', case=self.run.describe())

    def sees(self, inst, nick):
        w = self.run.world
        try:
            spec = w.spec_of(nick)
            return peek(w, inst.nick, 'supvisors.get_instance_info', f"{spec['ip']}:{spec['port']}")[0]['statename']
        except Fault:
            return None

    # -- per-tick sampling: detection ---------------------------------------------------------------
    def sample(self):
        w = self.run.world
        if getattr(self, 'finished', False):
            return
        w.at(w.now + TICK, self.sample)
        for inst in w.live():
            try:
                state = peek(w, inst.nick, 'supvisors.get_supvisors_state')
                master = peek(w, inst.nick, 'supvisors.get_master_identifier').get('identifier', '')
                if master != inst.identifier or state['fsm_statename'] != 'OPERATION':
                    self.pending_detection.pop((inst.nick, inst.inc), None)
                    continue
                conflicts = peek(w, inst.nick, 'supvisors.get_conflicts')
            except Fault:
                continue
            # the jobs of the Master itself (the API lists the identifiers of all the instances that have jobs: a
            # sequence driven by another instance does not keep the Master from conciliating)
            busy = inst.identifier in state['starting_jobs'] or inst.identifier in state['stopping_jobs']
            managed = [c for c in conflicts if self.run.model.get(c['application_name'], {}).get('managed')]
            self.count('detection_samples')
            key = (inst.nick, inst.inc)
            if managed and not busy:
                self.count('detection_samples_with_conflict')
                n = self.pending_detection.get(key, 0) + 1
                self.pending_detection[key] = n
                if n >= 3:
                    self.violate('C05/conflict-not-detected',
                                 f'the Master {inst.nick} is still in OPERATION without jobs at vt={vt(w)}, {n} tick '
                                 f"samples in a row with the conflicts "
                                 f"{[(c['application_name'], c['process_name'], c['identifiers']) for c in managed]}",
                                 case=self.run.describe())
            else:
                self.pending_detection.pop(key, None)

    # -- end ----------------------------------------------------------------------------------------
    def finish(self, run):
        self.finished = True
        self.remove_wrapper()
        w = run.world
        tr = self.tracker
        vws = views(w)
        comps, cliques = groups(w, vws)
        model = run.model
        for comp, clique in zip(comps, cliques):
            if not clique or not run.outcome.get('quiescent'):
                continue
            master = next((w.by_identifier.get(vws[n]['master']) for n in comp if vws[n]['master']), None)
            if master not in comp or any(vws[n]['master'] != vws[master]['master'] for n in comp):
                continue
            # true duplicates of managed processes inside the group
            dups = {}
            for nick in comp:
                for namespec, state in w.instances[nick].running_truth().items():
                    if state in RUN_CODES and model.get(namespec.split(':')[0], {}).get('managed'):
                        dups.setdefault(namespec, []).append(nick)
            dups = {ns: ns_nicks for ns, ns_nicks in dups.items() if len(ns_nicks) > 1}
            state = vws[master]['state']
            if state not in ('OPERATION', 'CONCILIATION'):
                continue
            try:
                seen = [c for c in peek(w, master, 'supvisors.get_conflicts')
                        if model.get(c['application_name'], {}).get('managed')]
            except Fault:
                continue
            seen_names = {f"{c['application_name']}:{c['process_name']}" for c in seen}
            if seen_names != set(dups):
                # the view of the Master is not the truth: the business of C12
                self.count('final_groups_view_differs_from_truth')
                continue
            self.count('final_groups_evaluated')
            minst = w.instances[master]
            busy = minst.identifier in vws[master]['starting_jobs'] or minst.identifier in vws[master]['stopping_jobs']
            if state == 'CONCILIATION' and w.now - self.entered.get((master, minst.inc), w.now) < 3 * TICK:
                # the conciliation has just begun
                self.count('final_groups_conciliation_just_begun')
                continue
            if state == 'OPERATION' and dups and not busy:
                self.violate('C05/conflict-ignored-at-the-end', f'at the end (vt={vt(w)}) the Master {master} is in '
                             f'OPERATION without jobs while {dups} are running more than once', case=run.describe())
            elif state == 'CONCILIATION' and not dups and not busy:
                self.violate('C05/stuck-in-conciliation', f'no conflict remains at the end (vt={vt(w)}) and no job is '
                             f'in progress but the Master {master} is still in CONCILIATION', case=run.describe())
            elif state == 'CONCILIATION' and dups and self.strategy != 'USER' and not busy:
                self.violate(f'C05/conflict-remains:{self.strategy}', f'at the end (vt={vt(w)}, Master {master} in '
                             f'{state} without jobs) the managed processes {dups} are still running more than once',
                             case=run.describe())
            if self.strategy == 'USER' and dups and state == 'CONCILIATION':
                self.count('user_conflicts_kept')
        # RESTART: one copy is started again
        if self.strategy == 'RESTART':
            for record in self.rounds:
                if record['strategy'] != 'RESTART' or not record['closed']:
                    continue
                for namespec in record['conflicts']:
                    starts = [s for s in tr.requests if s['sender'] == record['inst'] and s['inc'] == record['inc']
                              and s['namespec'] == namespec and s['t'] >= record['t']]
                    self.count('restart_rounds_evaluated')
                    if len(starts) > 1 and len({s['epoch'] for s in starts}) == 1 and \
                            not any(s['resolved'] in ('failed', 'given-up', 'target-lost', 'exited-unexpected')
                                    for s in starts):
                        self.violate('C05/restart-starts-several-copies',
                                     f"{record['inst']} emitted {len(starts)} start requests for {namespec} after its "
                                     f'RESTART conciliation', case=run.describe())
        return self.violations
