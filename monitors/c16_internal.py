""" C16 - no event sequence makes an instance fail internally (cluster part: full fault matrix). """
import random

from monitors.lib import InternalFailureMonitor, StateGraphMonitor
from workloads.membership import Run

PROPERTY = 'C16'
LEVEL = 'exploration'
RULE = ('generated clusters (1-5 instances, 1-3 nodes, options, rules, Supervisor configurations) executed under '
        'generated fault scripts (crash, restart, partition, link cut, late joiner, process kill) and randomised '
        'message delays; a case is non-trivial when at least one disturbance was applied; distinct = distinct '
        '(topology size, nodes, synchro options, failure strategy, auto_fence, core, schedule profile, disturbance '
        'kinds, late joiner) tuples')
ASSUMPTIONS = ['simulated transport and OS layer (DESIGN.md 2.1) are faithful',
               'statistics collector process and UDP discovery not exercised']
FLOORS = {'quick': {'events_observed': 5000, 'liveness_evaluations': 50},
          'thorough': {'events_observed': 50000, 'liveness_evaluations': 500}}
COUNT = {'quick': 320, 'thorough': 6000}
BUDGET_S = {'quick': 50, 'thorough': 520}

KNOBS = {'n_min': 1, 'n_max': 5, 'publisher': True, 'trigger_p': 0.3, 'late_p': 0.25,
         'apps': {'per_instance_diff': 0.15, 'allow_wait_exit': False}}


def plan(tier, seed):
    return [{'seed': seed * 1000003 + i} for i in range(COUNT[tier])]


def run_case(case):
    mon = InternalFailureMonitor()
    run = Run(case, KNOBS, [mon])
    violations = run.execute()
    nontrivial = any(not d.get('noop') for d in run.disturbances)
    return {'violations': violations, 'counters': run.counters, 'signature': run.shape() if nontrivial else None,
            'sample': run.describe()}
