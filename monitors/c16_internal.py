""" C16 - no event sequence makes an instance fail internally (cluster part: full fault matrix). """
import random

from monitors.lib import InternalFailureMonitor, StateGraphMonitor
from workloads.membership import Run

PROPERTY = 'C16'
LEVEL = 'exploration'
RULE = ('two workload families - (a) membership: generated fault scripts; (b) applications: automatic distribution, '
        'user start / stop / restart requests, kills, duplicates, instance loss and restart, targets crashing at the '
        'emission of a start request, immortal processes, 0-25% of PROCESS publications silently dropped - on '
        'generated clusters (1-5 instances, 1-3 nodes, options, rules, Supervisor configurations) executed under '
        'generated fault scripts (crash, restart, partition, link cut, late joiner, process kill) and randomised '
        'message delays; a case is non-trivial when at least one disturbance was applied; distinct = distinct '
        '(topology size, nodes, synchro options, failure strategy, auto_fence, core, schedule profile, disturbance '
        'kinds, late joiner) tuples')
ASSUMPTIONS = ['simulated transport and OS layer (DESIGN.md 2.1) are faithful',
               'statistics collector process and UDP discovery not exercised']
FLOORS = {'quick': {'events_observed': 5000, 'liveness_evaluations': 50},
          'thorough': {'events_observed': 50000, 'liveness_evaluations': 500}}
COUNT = {'quick': 320, 'thorough': 6000}
BUDGET_S = {'quick': 50, 'thorough': 520}

KNOBS = {'n_min': 1, 'n_max': 5, 'publisher': True, 'trigger_p': 0.3, 'late_p': 0.25,
         'apps': {'per_instance_diff': 0.15, 'allow_wait_exit': False}}


APPS_KNOBS = {'n_min': 1, 'n_max': 4, 'publisher': True,
              'apps': {'n_apps': (1, 3), 'n_progs': (1, 4), 'seq_max': 3, 'allow_wait_exit': True,
                       'startsecs': (0, 6), 'per_instance_diff': 0.15, 'managed_p': 0.85},
              'behaviours': ['normal'] * 5 + ['slow_stop', 'stubborn', 'immortal', 'crash_early', 'backoff_then_run',
                                              'exit_expected', 'exit_unexpected', 'fork_error', 'no_file'],
              'actions': ['start_application', 'stop_application', 'restart_application', 'start_process',
                          'stop_process', 'restart_process', 'restart_sequence', 'kill_process', 'crash', 'restart',
                          'dup', 'burst'],
              'disable_p': 0.15, 'crash_on_request_p': 0.05, 'drop_p': [0.0, 0.0, 0.05, 0.25],
              'n_actions': [1, 2, 3, 4, 6, 8], 'early_p': 0.3}


def plan(tier, seed):
    # two workload families: membership faults and application activity under a lossy channel
    return [{'seed': seed * 1000003 + i, 'family': 'membership' if i % 2 == 0 else 'apps'}
            for i in range(COUNT[tier])]


def run_case(case):
    mon = InternalFailureMonitor()
    if case.get('family', 'membership') == 'membership':
        run = Run(case, KNOBS, [mon])
        violations = run.execute()
        nontrivial = any(not d.get('noop') for d in run.disturbances)
    else:
        from workloads.apps import Run as AppsRun
        run = AppsRun(case, APPS_KNOBS, [mon])
        violations = run.execute()
        nontrivial = bool(run.actions)
    return {'violations': violations, 'counters': run.counters,
            'signature': (case.get('family', 'm') + '|' + run.shape()) if nontrivial else None,
            'sample': run.describe()}
