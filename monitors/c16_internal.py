""" C16 - no event sequence makes an instance fail internally (cluster part: full fault matrix). """
import random

from monitors.lib import InternalFailureMonitor, StateGraphMonitor, DynConfMonitor
from workloads.membership import Run

PROPERTY = 'C16'
LEVEL = 'exploration'
RULE = ('four workload families - (d) run-time configuration changes on L3: supvisors.update_numprocs (up, down, lazy, '
        'invalid values, programs without process_num), enable / disable, supervisor.removeProcessGroup / '
        'addProcessGroup mixed with start / stop / restart requests, kills and instance restarts, with the faults '
        'answered compared with the documented ones; (c) one real instance fed by scripted peers (L2 fuzz of C13 plus events about '
        'unknown processes / applications); (a) membership: generated fault scripts; (b) applications: automatic distribution, '
        'user start / stop / restart requests, kills, duplicates, instance loss and restart, targets crashing at the '
        'emission of a start request, immortal processes, 0-25% of PROCESS publications silently dropped - on '
        'generated clusters (1-5 instances, 1-3 nodes, options, rules, Supervisor configurations) executed under '
        'generated fault scripts (crash, restart, partition, link cut, late joiner, process kill) and randomised '
        'message delays; a case is non-trivial when at least one disturbance was applied; distinct = distinct '
        '(topology size, nodes, synchro options, failure strategy, auto_fence, core, schedule profile, disturbance '
        'kinds, late joiner) tuples')
ASSUMPTIONS = ['simulated transport and OS layer (DESIGN.md 2.1) are faithful',
               'statistics collector process and UDP discovery not exercised']
FLOORS = {'quick': {'events_observed': 5000, 'liveness_evaluations': 50, 'messages_injected': 3000,
                    'events_about_a_process_known_to_peers_only': 300, 'fuzz_runs_with_pattern_formulas': 40,
                    'numprocs_requests_served': 60, 'groups_removed': 30, 'groups_added_again': 5,
                    'programs_disabled_at_run_time': 30, 'configuration_requests_answered': 150,
                    'groups_added_again_after_a_refused_numprocs_change': 5, 'numprocs_decreased_during_a_stop': 40},
          'thorough': {'events_observed': 50000, 'liveness_evaluations': 500, 'messages_injected': 60000,
                       'events_about_a_process_known_to_peers_only': 6000, 'fuzz_runs_with_pattern_formulas': 800,
                       'numprocs_requests_served': 1200, 'groups_removed': 700, 'groups_added_again': 120,
                       'programs_disabled_at_run_time': 700, 'configuration_requests_answered': 3000,
                       'groups_added_again_after_a_refused_numprocs_change': 100,
                       'numprocs_decreased_during_a_stop': 500}}
COUNT = {'quick': 320, 'thorough': 6000}
BUDGET_S = {'quick': 50, 'thorough': 520}

KNOBS = {'n_min': 1, 'n_max': 5, 'publisher': True, 'trigger_p': 0.3, 'late_p': 0.25,
         'apps': {'per_instance_diff': 0.15, 'allow_wait_exit': False}}


APPS_KNOBS = {'n_min': 1, 'n_max': 4, 'publisher': True,
              'apps': {'n_apps': (1, 3), 'n_progs': (1, 4), 'seq_max': 3, 'allow_wait_exit': True,
                       'startsecs': (0, 6), 'per_instance_diff': 0.15, 'managed_p': 0.85},
              'behaviours': ['normal'] * 5 + ['slow_stop', 'stubborn', 'immortal', 'crash_early', 'backoff_then_run',
                                              'exit_expected', 'exit_unexpected', 'fork_error', 'no_file'],
              'actions': ['start_application', 'stop_application', 'restart_application', 'start_process',
                          'stop_process', 'restart_process', 'restart_sequence', 'kill_process', 'crash', 'restart',
                          'dup', 'burst'],
              'disable_p': 0.15, 'crash_on_request_p': 0.05, 'drop_p': [0.0, 0.0, 0.05, 0.25],
              'n_actions': [1, 2, 3, 4, 6, 8], 'early_p': 0.3}


# (d) the Supervisor configuration changes at run time: numprocs updated (up, down, lazy, invalid values, programs that
# do not support it), programs disabled / enabled, groups removed and added again, mixed with the other requests
DYN_KNOBS = {'n_min': 1, 'n_max': 4, 'publisher': True,
             'apps': {'n_apps': (1, 3), 'n_progs': (1, 4), 'seq_max': 3, 'allow_wait_exit': False, 'max_numprocs': 3,
                      'startsecs': (0, 4), 'per_instance_diff': 0.15, 'managed_p': 0.85},
             'behaviours': ['normal'] * 6 + ['slow_stop', 'stubborn', 'crash_early', 'exit_unexpected'],
             'actions': ['update_numprocs'] * 4 + ['enable', 'disable', 'disable', 'remove_group', 'remove_group',
                                                   'add_group', 'add_group', 'refused_numprocs_then_group_added_again',
                                                   'stop_then_decrease', 'stop_then_decrease',
                                                   'start_application', 'stop_application',
                                                   'restart_application', 'start_process', 'stop_process',
                                                   'restart_sequence', 'kill_process', 'restart', 'burst'],
             'gaps': [0.0, 0.05, 0.5, 2.0, 5.0, 12.0],
             'n_actions': [2, 3, 4, 6, 8, 12], 'early_p': 0.1}


# (d') numprocs decreased on the hosts while the application is being stopped level by level (slow stops)
DECREASE_KNOBS = {'n_min': 2, 'n_max': 3, 'publisher': True,
                  'apps': {'n_apps': (1, 2), 'n_progs': (2, 4), 'seq_max': 3, 'allow_wait_exit': False,
                           'max_numprocs': 3, 'startsecs': (0, 2), 'stopwaitsecs': (4, 10), 'per_instance_diff': 0.0,
                           'managed_p': 1.0, 'autorestart': ('false',)},
                  'behaviours': ['slow_stop', 'slow_stop', 'stubborn', 'normal'],
                  'actions': ['stop_then_decrease'], 'gaps': [8.0, 15.0], 'n_actions': [1, 2], 'early_p': 0.0}


FUZZ_KNOBS = {'n_steps': [60, 100, 160], 'unknown_process_p': 0.15, 'formula_rules_p': 0.6, 'extra_process_p': 0.25}


def plan(tier, seed):
    # three workload families: membership faults, application activity under a lossy channel, and one real instance
    # fed by scripted peers (stale / duplicated / forged notifications, events about unknown processes)
    cases = [{'seed': seed * 1000003 + i, 'family': 'membership' if i % 2 == 0 else 'apps'}
             for i in range(COUNT[tier])]
    cases += [{'seed': seed * 1000003 + 700000 + i, 'family': 'fuzz'} for i in range(COUNT[tier] // 2)]
    cases += [{'seed': seed * 1000003 + 600000 + i, 'family': 'dynconf'} for i in range(COUNT[tier] // 2)]
    cases += [{'seed': seed * 1000003 + 500000 + i, 'family': 'decrease-during-stop'} for i in range(COUNT[tier] // 4)]
    return cases


def run_case(case):
    mon = InternalFailureMonitor()
    family = case.get('family', 'membership')
    if family == 'membership':
        run = Run(case, KNOBS, [mon])
        violations = run.execute()
        nontrivial = any(not d.get('noop') for d in run.disturbances)
    elif family == 'apps':
        from workloads.apps import Run as AppsRun
        run = AppsRun(case, APPS_KNOBS, [mon])
        violations = run.execute()
        nontrivial = bool(run.actions)
    elif family in ('dynconf', 'decrease-during-stop'):
        from workloads.apps import Run as AppsRun
        run = AppsRun(case, DYN_KNOBS if family == 'dynconf' else DECREASE_KNOBS, [mon, DynConfMonitor()])
        violations = run.execute()
        nontrivial = any(a['kind'] in ('update_numprocs', 'enable', 'disable', 'remove_group', 'add_group',
                                       'refused_numprocs_then_group_added_again', 'stop_then_decrease')
                         and a.get('res') for a in run.actions)
    else:
        from workloads.isolation_fuzz import FuzzRun
        run = FuzzRun(case, FUZZ_KNOBS, [mon])
        violations = [v for v in run.execute() if v['key'].startswith('C16/')]
        run.counters = {k: v for k, v in run.counters.items()
                        if k in ('messages_injected', 'proxy_steps', 'critical_records', 'events_observed',
                                 'liveness_evaluations', 'events_about_a_process_known_to_peers_only')}
        if run.options.get('rules') == 'formulas':
            run.counters['fuzz_runs_with_pattern_formulas'] = 1
        nontrivial = run.counters.get('messages_injected', 0) > 0
    return {'violations': violations, 'counters': run.counters,
            'signature': (family + '|' + run.shape()) if nontrivial else None,
            'sample': run.describe()}
