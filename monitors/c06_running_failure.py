""" C06 - running failure strategies are applied once, by the Master, with precedence. """
from monitors.lib_apps import Tracker
from monitors.lib_c06 import RunningFailureMonitor
from workloads.apps import Run

PROPERTY = 'C06'
LEVEL = 'exploration'
RULE = ('family cluster (L3): generated clusters (2-4 instances) with generated managed applications (all combinations '
        'of per-application / per-program running failure strategies) distributed and running; instance crashes and '
        'restarts at random instants, also right after user start / stop / restart requests so that the loss is '
        'acknowledged while start / stop sequences are in progress, process kills; oracle: the lost processes are read '
        "from the Master's own status API just before the invalidation, the expected action per application is "
        'computed from the rules model with the stated precedence and promotion, and compared with what the Master '
        'plans afterwards (entry points of its Starter / Stopper) once the cluster is settled; handler entry points '
        'wrapped on every instance (Master only); family loss-during-stop: the Master is asked to stop an '
        'application whose processes ignore SIGTERM (multi-level stop sequence lasting longer than the failure '
        'detection) and an instance is lost meanwhile - the processes that have a stop command towards the lost '
        'instance in the Stopper of the Master are left to that job (no start planned by the Master afterwards); '
        'family handler (L1): see the second plan family; non-trivial = at '
        'least one loss acknowledged by the Master with lost processes; distinct = distinct (topology, strategies, '
        'distributions, actions) tuples')
ASSUMPTIONS = ['evaluated only when the cluster settles (OPERATION everywhere without jobs) with the same Master',
               'an application that has jobs planned at the Master when the loss is acknowledged is left to those jobs',
               'RESTART / SHUTDOWN running failure strategies: the Master that everybody agreed on at the crash, in '
               'OPERATION / CONCILIATION and alive for 3 more ticks, must publish RESTARTING / SHUTTING_DOWN']
FLOORS = {'quick': {'losses_acknowledged_by_master': 150, 'applications_evaluated_after_loss': 100,
                    'losses_acknowledged_while_jobs_in_progress': 20, 'handler_calls': 150,
                    'handler_set_comparisons': 2000, 'handler_dispatches_checked': 150, 'handler_promotions': 30,
                    'supvisors_strategy_crashes_evaluated': 4, 'lost_processes_with_a_stop_job_checked': 15,
                    'handler_superseded': 200, 'copy_deaths_judged': 60},
          'thorough': {'losses_acknowledged_by_master': 3000, 'applications_evaluated_after_loss': 2000,
                       'losses_acknowledged_while_jobs_in_progress': 400, 'handler_calls': 3000,
                       'handler_set_comparisons': 40000, 'handler_dispatches_checked': 3000,
                       'supvisors_strategy_crashes_evaluated': 80, 'lost_processes_with_a_stop_job_checked': 250,
                       'copy_deaths_judged': 1200,
                       'handler_promotions': 600, 'handler_superseded': 4000}}
COUNT = {'quick': 640, 'thorough': 12000}
BUDGET_S = {'quick': 55, 'thorough': 540}

KNOBS = {'n_min': 2, 'n_max': 4, 'keep_master': True,
         'apps': {'n_apps': (2, 3), 'n_progs': (1, 3), 'seq_max': 2, 'startsecs': (1, 9), 'stopwaitsecs': (2, 9),
                  'managed_p': 0.9, 'autorestart': ('false',), 'identifiers_p': 0.15, 'supvisors_failure_p': 0.06},
         'behaviours': ['normal'] * 6 + ['slow_stop', 'slow_stop', 'stubborn'],
         'actions': ['crash', 'crash', 'crash', 'restart', 'start_application', 'stop_application',
                     'restart_application', 'restart_process', 'kill_process', 'kill_process', 'wait'],
         'n_actions': [1, 2, 3, 4, 5], 'fence': 'false', 'early_p': 0.1, 'gaps': [0.0, 0.05, 0.5, 2.0, 2.0, 5.0, 12.0]}


# a third family: an instance is lost while the Master is stopping an application (slow, multi-level stop sequences):
# the processes that still have a stop command planned towards the lost instance are left to that job
STOP_KNOBS = {'n_min': 3, 'n_max': 4, 'keep_master': True,
              'apps': {'n_apps': (1, 2), 'n_progs': (2, 4), 'seq_max': 3, 'startsecs': (0, 2), 'stopwaitsecs': (10, 25),
                       'managed_p': 1.0, 'autorestart': ('false',), 'identifiers_p': 0.0},
              'behaviours': ['stubborn', 'stubborn', 'stubborn', 'slow_stop', 'normal'],
              'actions': ['stop_application'], 'then': ['crash'], 'n_actions': [1], 'fence': 'false', 'early_p': 0.0,
              'gaps': [0.0, 0.3, 1.0, 2.5, 4.0], 'on_master_p': 0.8}
STOP_CASES = {'quick': 200, 'thorough': 3000}

HANDLER_CASES = {'quick': 160, 'thorough': 3000}

# a fourth family: the general one with slow handshakes (each XML-RPC of a handshake takes 0 - 3 s, L3 engine) and more
# instance restarts: losses are acknowledged while peers are being checked again
SLOW_KNOBS = dict(KNOBS, handshake_skew=[0.0, 0.3, 1.0, 2.0, 3.0],
                  actions=KNOBS['actions'] + ['restart', 'restart'])


# a fifth family: a duplicate copy of a running process (conflicts left to the user) dies - unexpected exit or FATAL -
# while the first copy keeps running: the process has not crashed, no running failure strategy applies
COPY_KNOBS = {'n_min': 2, 'n_max': 4, 'keep_master': True,
              'apps': {'n_apps': (1, 3), 'n_progs': (1, 3), 'seq_max': 2, 'startsecs': (1, 6), 'stopwaitsecs': (2, 5),
                       'managed_p': 1.0, 'autorestart': ('false',), 'identifiers_p': 0.0, 'supvisors_failure_p': 0.15,
                       'per_instance_diff': 0.0},
              'behaviours': ['normal'], 'options': {'conciliation_strategy': 'USER'}, 'dup_managed_only': True,
              'actions': ['dup_then_kill_copy'], 'n_actions': [1], 'gaps': [40.0], 'fence': 'false', 'early_p': 0.0}
COPY_CASES = {'quick': 160, 'thorough': 3000}


def plan(tier, seed):
    # two families: end-to-end losses in a cluster (L3), histories fed to the real handler (L1)
    cases = [{'seed': seed * 1000003 + i, 'family': 'cluster'} for i in range(COUNT[tier])]
    cases += [{'seed': seed * 1000003 + 500000 + i, 'family': 'handler'} for i in range(HANDLER_CASES[tier])]
    cases += [{'seed': seed * 1000003 + 800000 + i, 'family': 'loss-during-stop'} for i in range(STOP_CASES[tier])]
    cases += [{'seed': seed * 1000003 + 900000 + i, 'family': 'slow-handshake'} for i in range(COUNT[tier] // 8)]
    cases += [{'seed': seed * 1000003 + 700000 + i, 'family': 'copy-dies'} for i in range(COPY_CASES[tier])]
    return cases


def copy_dies_oracle(run, tracker):
    """ The copy that died was not the only one: the process keeps running, nothing is to be repaired. """
    out = []
    for action in run.actions:
        killed = action.get('copy_killed')
        if not killed:
            continue
        namespec, first, second, when = killed
        app = namespec.split(':')[0]
        w = run.world
        survivor = w.instances.get(first)
        # judged when the first copy has truly kept running on a live instance until the end of the run
        if survivor is None or not survivor.alive or survivor.running_truth().get(namespec) != 20:
            run.count('copy_deaths_not_judged')
            continue
        run.count('copy_deaths_judged')
        later = [r for r in tracker.requests + tracker.stops
                 if r['t'] > when and r['namespec'].split(':')[0] == app]
        closing = [s for (nick, inc), s in getattr(tracker, 'sender_state', {}).items()
                   if s in ('RESTARTING', 'SHUTTING_DOWN', 'FINAL')]
        if later or closing:
            what = [(r['kind'], r['sender'], r['namespec'], r['target_nick']) for r in later[:4]]
            out.append({'key': 'C06/strategy-applied-although-the-process-still-runs',
                        'msg': f'a duplicate copy of {namespec} died on {second} at vt={round(when - 1_700_000_000.0, 2)} '
                               f'while the copy on {first} kept running (it still runs at the end): the process has not '
                               f'crashed, yet requests followed for its application: {what}, closing states: {closing}',
                        'detail': {'case': run.describe()}})
    return out


def run_case(case):
    if case.get('family') == 'handler':
        return run_handler_case(case)
    tracker = Tracker()
    mon = RunningFailureMonitor(tracker)
    run = Run(case, {'loss-during-stop': STOP_KNOBS, 'slow-handshake': SLOW_KNOBS,
                     'copy-dies': COPY_KNOBS}.get(case.get('family'), KNOBS), [tracker, mon])
    violations = run.execute()
    if case.get('family') == 'copy-dies':
        violations = list(violations) + copy_dies_oracle(run, tracker)
    nontrivial = mon.counters.get('lost_processes', 0) > 0 or run.counters.get('copy_deaths_judged', 0) > 0
    return {'violations': violations, 'counters': run.counters,
            'signature': ('c|' + run.shape()) if nontrivial else None, 'sample': run.describe()}


# -- L1: the real RunningFailureHandler against a reference model of the precedence rules ---------------

class HandlerModel:
    """ Written from the statement: one action per application with precedence STOP_APPLICATION >
    RESTART_APPLICATION > RESTART_PROCESS > CONTINUE; an application-level restart only supersedes the jobs of the
    processes that belong to the start sequence of the application; RESTART_PROCESS is promoted to
    RESTART_APPLICATION when the application is fully stopped and the process belongs to its start sequence. """

    def __init__(self):
        self.stop, self.restart, self.restart_proc, self.cont = set(), set(), set(), set()

    def add(self, strategy, namespec, sequenced):
        app = namespec.split(':')[0]
        if strategy == 'STOP_APPLICATION':
            self.stop.add(app)
            self.restart.discard(app)
            self.restart_proc = {p for p in self.restart_proc if p.split(':')[0] != app}
            self.cont = {p for p in self.cont if p.split(':')[0] != app}
        elif strategy == 'RESTART_APPLICATION':
            if app in self.stop:
                return
            self.restart.add(app)
            self.restart_proc = {p for p in self.restart_proc if not (p.split(':')[0] == app and sequenced(p))}
            self.cont = {p for p in self.cont if not (p.split(':')[0] == app and sequenced(p))}
        elif strategy == 'RESTART_PROCESS':
            if app in self.stop or (app in self.restart and sequenced(namespec)):
                return
            self.restart_proc.add(namespec)
            self.cont.discard(namespec)
        else:
            if app in self.stop or (app in self.restart and sequenced(namespec)) or namespec in self.restart_proc:
                return
            self.cont.add(namespec)

    def sets(self):
        return self.stop, self.restart, self.restart_proc, self.cont


def run_handler_case(case):
    import random
    from vsim import gen
    from vsim.single import Single
    from vsim.cluster import peek
    from supvisors.ttypes import RunningFailureStrategies
    rng = random.Random(case['seed'])
    specs = [{'nick': 'sv1'}]
    model, groups_by_nick = gen.gen_apps(rng, specs, n_apps=(2, 4), n_progs=(1, 4), managed_p=1.0, seq_max=2,
                                         startsecs=(0, 1), autorestart=('false',), identifiers_p=0.0)
    single = Single(n=1, options={'synchro_options': 'TIMEOUT', 'synchro_timeout': 6},
                    rules_xml=gen.rules_xml(model), groups=groups_by_nick['sv1'], seed=case['seed'], model=model)
    counters = {'handler_operations': 0, 'handler_set_comparisons': 0, 'handler_triggers': 0,
                'handler_dispatches_checked': 0, 'handler_promotions': 0, 'handler_superseded': 0}
    violations = []
    w = single.world
    ops = []
    try:
        sv = single.supvisors
        w.run_for(40.0)
        # a random subset of the applications is stopped, so that promotion applies
        for app in model:
            if rng.random() < 0.4:
                w.user_rpc('sv1', 'supvisors.stop_application', app, False)
        w.run_for(20.0)
        handler = sv.failure_handler
        handler.abort()
        calls = []
        busy = set()
        with single.ctx():
            sv.stopper.stop_application = lambda application, trigger=True: calls.append(('stop', application.application_name))
            sv.stopper.default_restart_application = lambda application, trigger=True: calls.append(('restart', application.application_name))
            sv.stopper.default_restart_process = lambda process, trigger=True: calls.append(('process', process.namespec))
            sv.stopper.next = lambda: calls.append(('stopper.next', None))
            sv.starter.next = lambda: calls.append(('starter.next', None))
            sv.starter.get_application_job_names = lambda: set(busy)
            sv.stopper.get_application_job_names = lambda: set()
            ctx = sv.context
            processes = {p.namespec: p for a in ctx.applications.values() for p in a.processes.values()}
            names = sorted(processes)
            procs_model = gen.model_processes(model)

            def sequenced(namespec):
                app_name, prog_name = procs_model[namespec]
                return model[app_name]['programs'][prog_name]['start_sequence'] > 0

            def stopped(app_name):
                info = peek(w, 'sv1', 'supvisors.get_application_info', app_name)
                return info['statename'] == 'STOPPED'
            ref = HandlerModel()
            strategies = ['CONTINUE', 'RESTART_PROCESS', 'STOP_APPLICATION', 'RESTART_APPLICATION']
            for _ in range(rng.choice([10, 20, 40])):
                roll = rng.random()
                namespec = rng.choice(names)
                process = processes[namespec]
                before = tuple(len(x) for x in ref.sets())
                if roll < 0.45:
                    strategy = rng.choice(strategies)
                    ops.append(('add_job', strategy, namespec))
                    handler.add_job(RunningFailureStrategies[strategy], process)
                    ref.add(strategy, namespec, sequenced)
                elif roll < 0.8:
                    app_name, prog_name = procs_model[namespec]
                    strategy = model[app_name]['programs'][prog_name]['running_failure_eff']
                    ops.append(('add_default_job', strategy, namespec))
                    handler.add_default_job(process)
                    ref.add(strategy, namespec, sequenced)
                    if strategy == 'RESTART_PROCESS' and stopped(app_name) and sequenced(namespec):
                        ref.add('RESTART_APPLICATION', namespec, sequenced)
                        counters['handler_promotions'] += 1
                elif roll < 0.85:
                    ops.append(('abort',))
                    handler.abort()
                    ref = HandlerModel()
                else:
                    busy.clear()
                    busy.update(a for a in model if rng.random() < 0.3)
                    ops.append(('trigger_jobs', sorted(busy)))
                    del calls[:]
                    handler.trigger_jobs()
                    counters['handler_triggers'] += 1
                    expected = [('stop', a) for a in ref.stop if a not in busy] + \
                        [('restart', a) for a in ref.restart if a not in busy] + \
                        [('process', p) for p in ref.restart_proc if p.split(':')[0] not in busy]
                    observed = [c for c in calls if c[0] in ('stop', 'restart', 'process')]
                    counters['handler_dispatches_checked'] += len(expected)
                    if sorted(observed) != sorted(expected):
                        violations.append({'key': 'C06/handler-dispatch', 'msg': f'trigger_jobs with jobs in progress '
                                           f'for {sorted(busy)} dispatched {sorted(observed)}, expected '
                                           f'{sorted(expected)} after {ops[-12:]}', 'detail': {'ops': ops}})
                    kinds = [c[0] for c in observed]
                    if kinds != sorted(kinds, key=['stop', 'restart', 'process'].index):
                        violations.append({'key': 'C06/handler-dispatch-order', 'msg': f'dispatch order {kinds}',
                                           'detail': {'ops': ops}})
                    ref.stop = {a for a in ref.stop if a in busy}
                    ref.restart = {a for a in ref.restart if a in busy}
                    ref.restart_proc = {p for p in ref.restart_proc if p.split(':')[0] in busy}
                    ref.cont = set()
                counters['handler_operations'] += 1
                if tuple(len(x) for x in ref.sets()) < before:
                    counters['handler_superseded'] += 1
                real = ({a.application_name for a in handler.stop_application_jobs},
                        {a.application_name for a in handler.restart_application_jobs},
                        {p.namespec for p in handler.restart_process_jobs},
                        {p.namespec for p in handler.continue_process_jobs})
                counters['handler_set_comparisons'] += 1
                if real != ref.sets():
                    violations.append({'key': 'C06/handler-precedence',
                                       'msg': f'after {ops[-8:]} the handler holds stop={sorted(real[0])} '
                                              f'restart={sorted(real[1])} restart_process={sorted(real[2])} '
                                              f'continue={sorted(real[3])}, the precedence rules give '
                                              f'stop={sorted(ref.stop)} restart={sorted(ref.restart)} '
                                              f'restart_process={sorted(ref.restart_proc)} continue={sorted(ref.cont)}',
                                       'detail': {'ops': ops}})
                    break
                # mutual exclusion
                if real[0] & real[1] or any(p.split(':')[0] in real[0] for p in real[2] | real[3]) or real[2] & real[3]:
                    violations.append({'key': 'C06/handler-exclusion', 'msg': f'inconsistent job sets {real}',
                                       'detail': {'ops': ops}})
                    break
    finally:
        single.close()
    signature = 'h|' + '|'.join(sorted({op[0] + (op[1] if len(op) > 2 else '') for op in ops})) + \
        f"|{counters['handler_promotions'] > 0}|{counters['handler_superseded'] > 0}|{len(model)}"
    return {'violations': violations[:5], 'counters': counters, 'signature': signature if ops else None,
            'sample': {'model': {a: {p: (pr['running_failure_eff'], pr['start_sequence']) for p, pr in m['programs'].items()}
                                 for a, m in model.items()}}}
