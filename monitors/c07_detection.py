""" C07 - silent instances are detected in bounded time, live ones are never declared lost. """
from monitors.lib_c07 import FailureDetectionMonitor
from workloads.membership import Run

PROPERTY = 'C07'
LEVEL = 'exploration'
RULE = ('generated clusters (2-5 instances, clock and tick phase offsets, inactivity_ticks 2-4, both auto_fence '
        'settings, processes distributed and running) under generated fault scripts (crash, restart faster and '
        'slower than detection, partition + heal, one-way / two-way link cut, late joiner, of the Master or not, '
        'triggered at random instants or on observed states) and randomised message delays; online oracle: shadow '
        'counter per (observer, peer) fed by the TICK deliveries seen on the transport and by the local TICK '
        'entry point, evaluated around every periodic check (completeness: late => not active any more; accuracy: '
        'RUNNING -> FAILED only if late, XML-RPC failure in the episode, or peer restarted), FAILED gone after one '
        'complete periodic task, ISOLATED iff auto_fence and Master in a working state, processes of the lost peer '
        'FATAL and not listed there, every peer state change on the documented graph and equal to the status API, a peer restarted quicker than '
        'the detection delay leaves the episode of its previous incarnation within two local ticks of its first TICK; '
        'non-trivial = at least one peer declared FAILED and one invalidation with lost processes checked or one '
        'silent peer seen at a periodic check; distinct = distinct membership shapes')
ASSUMPTIONS = ['simulated transport and OS layer (DESIGN.md 2.1) are faithful; message delays below one tick period',
               'accuracy is evaluated for peers seen RUNNING only (as stated); suspicions of peers still CHECKING / '
               'CHECKED are counted, not judged',
               'an XML-RPC failure must end the episode of the peer within two local ticks (notification transit)']
FLOORS = {'quick': {'completeness_evaluations': 3000, 'silent_peers_at_timer': 40, 'accuracy_evaluations': 80,
                    'invalidations': 100, 'lost_processes_checked': 40, 'peer_state_changes': 3000,
                    'ticks_delivered': 10000, 'quick_restarts_seen': 100, 'host_reboots': 60},
          'thorough': {'completeness_evaluations': 60000, 'silent_peers_at_timer': 1200, 'accuracy_evaluations': 1600,
                       'invalidations': 2000, 'lost_processes_checked': 800, 'peer_state_changes': 60000,
                       'ticks_delivered': 200000, 'quick_restarts_seen': 1500, 'host_reboots': 1200}}
COUNT = {'quick': 560, 'thorough': 9000}
BUDGET_S = {'quick': 55, 'thorough': 540}

KNOBS = {'n_min': 2, 'n_max': 5, 'late_p': 0.3, 'trigger_p': 0.3, 'both_p': 0.4,
         'n_dist': [1, 1, 2, 2, 3, 3, 4],
         'kinds': ['crash', 'restart', 'restart', 'restart', 'partition', 'partition', 'cutlink', 'cutlink',
                   'crash_master', 'restart_master', 'proc_kill'],
         'apps': {'n_apps': (1, 3), 'n_progs': (1, 3), 'startsecs': (0, 4)}}


APPS_KNOBS = {'n_min': 2, 'n_max': 4,
              'apps': {'n_apps': (1, 3), 'n_progs': (1, 4), 'seq_max': 2, 'startsecs': (0, 4), 'managed_p': 0.8},
              'behaviours': ['normal'] * 5 + ['slow_stop', 'slow_stop', 'stubborn'],
              'actions': ['start_application', 'stop_application', 'restart_application', 'stop_process',
                          'restart_process', 'crash', 'crash', 'restart', 'restart', 'restart'],
              'n_actions': [2, 3, 4, 6], 'early_p': 0.3}


# an additional family: a peer restarts quicker than the detection delay (and is fenced, or dies again for good), then,
# much later, ANOTHER peer falls silent: the detection must still work after the first episode
QUICK_KNOBS = {'n_min': 3, 'n_max': 4, 'late_p': 0.0, 'trigger_p': 0.0, 'profiles': ['wide', 'wide', 'bursty', 'lazy'],
               'fixed_script': [[{'kind': 'restart', 'down': (0.2, 6.0), 'gap_ticks': [2, 4]},
                                 {'kind': 'crash'}],
                                [{'kind': 'restart', 'down': (0.2, 6.0), 'gap_ticks': [2, 4]},
                                 {'kind': 'crash', 'same_target': True, 'gap_ticks': [1, 2, 3]},
                                 {'kind': 'crash'}]],
               'apps': {'n_apps': (1, 2), 'n_progs': (1, 3), 'startsecs': (0, 4)}}
QUICK_COUNT = {'quick': 100, 'thorough': 2000}


# and a family where the HOST of a peer reboots (instances alone on their node): the monotonic clock of the new
# incarnation starts again near zero; restarts slower and quicker than the detection
REBOOT_KNOBS = {'n_min': 3, 'n_max': 4, 'max_nodes': 4, 'late_p': 0.0, 'trigger_p': 0.0, 'host_reboot_p': 1.0,
                'fixed_script': [[{'kind': 'restart', 'down': (25.0, 60.0), 'gap_ticks': [2, 4]}],
                                 [{'kind': 'restart', 'down': (0.5, 8.0), 'gap_ticks': [2, 4]}],
                                 [{'kind': 'restart', 'down': (25.0, 60.0), 'gap_ticks': [2, 4]}, {'kind': 'crash'}]],
                'apps': {'n_apps': (1, 2), 'n_progs': (1, 3), 'startsecs': (0, 4)}}
REBOOT_COUNT = {'quick': 70, 'thorough': 2000}


def plan(tier, seed):
    # two workload families: membership faults, and instance losses in the middle of application activity
    return [{'seed': seed * 1000003 + i, 'family': 'apps' if i % 3 == 2 else 'membership'}
            for i in range(COUNT[tier])] + \
        [{'seed': seed * 1000003 + 700000 + i, 'family': 'quick-restart-then-silence'} for i in range(QUICK_COUNT[tier])] + \
        [{'seed': seed * 1000003 + 600000 + i, 'family': 'host-reboot'} for i in range(REBOOT_COUNT[tier])]


def run_case(case):
    mon = FailureDetectionMonitor()
    if case.get('family', 'membership') == 'membership':
        run = Run(case, KNOBS, [mon])
    elif case['family'] == 'quick-restart-then-silence':
        run = Run(case, QUICK_KNOBS, [mon])
    elif case['family'] == 'host-reboot':
        run = Run(case, REBOOT_KNOBS, [mon])
    else:
        from workloads.apps import Run as AppsRun
        run = AppsRun(case, APPS_KNOBS, [mon])
    violations = run.execute()
    c = mon.counters
    nontrivial = c.get('invalidations', 0) > 0 and (c.get('lost_processes_checked', 0) > 0 or
                                                    c.get('silent_peers_at_timer', 0) > 0)
    return {'violations': violations, 'counters': run.counters,
            'signature': (case.get('family', 'membership')[0] + '|' + run.shape()) if nontrivial else None,
            'sample': run.describe()}
