""" Monitor classes shared by the cluster-level checks. Each monitor attaches listeners / hook callbacks to a
workload run, shadows what it needs while the real code executes, and returns violations at the end.

violation = {'key': mechanism key, 'msg': text, 'detail': {...}}
"""
import re

from vsim.cluster import (views, groups, sync_satisfiable, master_agreement, operational, rule_pick, peek, ident,
                          vt, MASTER_DRIVEN, TICK, Fault)
from vsim.sim import BASE_TIME


class Monitor:
    def __init__(self):
        self.counters = {}
        self.violations = []
        self.run = None

    def count(self, name, n=1):
        self.counters[name] = self.counters.get(name, 0) + n

    def violate(self, key, msg, **detail):
        if len(self.violations) < 20:
            self.violations.append({'key': key, 'msg': msg, 'detail': detail})

    def attach(self, run):
        self.run = run

    def finish(self, run):
        return self.violations

    def on_livelock(self, run, exc):
        """ A call into an instance never returned (vsim.sim.Livelock): nothing to say by default. """


# ---------------------------------------------------------------------------------------------------
# C16

_TB_FRAME = re.compile(r'File "([^"]+)", line \d+, in (\w+)')


def traceback_key(tb):
    """ Mechanism key of a traceback: exception type @ innermost frame inside the supvisors package. """
    frames = [(f, fn) for f, fn in _TB_FRAME.findall(tb) if '/supvisors/' in f]
    lines = [line for line in tb.strip().splitlines() if line and not line.startswith(' ')]
    exc = lines[-1].split(':')[0].split('.')[-1] if lines else 'Exception'
    if frames:
        f, fn = frames[-1]
        where = f.split('/supvisors/')[-1].replace('.py', '').replace('/', '.') + '.' + fn
    else:
        where = 'unknown'
    return f'{exc}@{where}'


class InternalFailureMonitor(Monitor):
    """ C16: critical log records carrying a traceback (last-resort guards), non-RPCError exceptions leaving an
    XML-RPC method, exceptions killing a proxy thread, periodic evaluation stopping. """

    def __init__(self, check_typeerrors=True):
        Monitor.__init__(self)
        self.check_typeerrors = check_typeerrors
        self.inconsistent = set()

    def attach(self, run):
        Monitor.attach(self, run)
        run.world.listeners.append(self.on_event)

    def on_event(self, ev):
        kind = ev['k']
        if kind == 'critical':
            self.count('critical_records')
            if 'Traceback' in ev['msg']:
                key = traceback_key(ev['msg'])
                guard = ev['msg'].split(':')[0]
                self.violate(f'C16/guard:{key}', f"last-resort guard needed on {ev['inst']} at vt="
                             f"{ev['t'] - BASE_TIME:.3f}: {ev['msg'][-1500:]}", guard=guard)
        elif kind == 'internal_error':
            key = traceback_key(ev.get('tb', ''))
            if ev.get('method') == 'supvisors.update_numprocs' and ev.get('where') == 'rpc_callee':
                # cause tested on the real Supervisor: the KeyError names a group of the configuration that is not
                # loaded in the Supervisor of that instance at this instant (removed by supervisor.removeProcessGroup)
                last = ev.get('tb', '').strip().splitlines()[-1]
                inst = self.run.world.instances.get(ev.get('inst'))
                if last.startswith('KeyError: ') and inst is not None:
                    group = last[len('KeyError: '):].strip('\'"')
                    program = ev.get('args', '').split("'")[1] if "'" in ev.get('args', '') else ''
                    if group in self.run.world.spec_of(inst.nick)['groups'] and group not in inst.sd.process_groups:
                        key += ':group-removed-from-supervisor'
                        # the numprocs of the program may have been changed before the error: from now on Supvisors
                        # and Supervisor disagree on the processes of this program on this instance
                        self.inconsistent.add((inst.nick, inst.inc, program))
                    elif (inst.nick, inst.inc, program) in self.inconsistent:
                        key += ':after-a-change-interrupted-by-group-removed-from-supervisor'
            self.violate(f"C16/{ev['where']}:{key}", f"internal error ({ev['where']}) on {ev.get('inst')} "
                         f"method={ev.get('method')} args={ev.get('args')}: {ev.get('tb', '')[-1500:]}")
        elif kind == 'rpc_typeerror' and self.check_typeerrors:
            key = traceback_key(ev.get('tb', ''))
            self.violate(f'C16/rpc_typeerror:{key}', f"TypeError inside {ev['method']}{ev['args']} on {ev['inst']} "
                         f"(disguised as INCORRECT_PARAMETERS): {ev['tb'][-1200:]}")
        elif kind in ('rpc_call', 'hook'):
            self.count('events_observed')

    def finish(self, run):
        # periodic evaluation keeps running: the tick counter of every live instance advances
        w = run.world
        before = {inst.nick: (inst, inst.supvisors.listener.counter) for inst in w.live()
                  if inst.sd.options.mood >= 1}
        w.run_for(3 * TICK)
        for nick, (inst, c0) in before.items():
            if not inst.alive or inst.sd.options.mood < 1:
                continue
            self.count('liveness_evaluations')
            if inst.supvisors.listener.counter - c0 < 2:
                self.violate('C16/ticks-stopped', f'{nick}: tick counter went from {c0} to '
                             f'{inst.supvisors.listener.counter} in 3 ticks of virtual time')
        return self.violations


class DynConfMonitor(Monitor):
    """ C16 (XML-RPC callers get a result or a documented fault) for the requests that change the Supervisor
    configuration at run time: update_numprocs, enable, disable. The fault codes are those of the docstrings of
    the methods (the published API documentation). """

    DOCUMENTED = {'supvisors.update_numprocs': {101: 'BAD_SUPVISORS_STATE', 10: 'BAD_NAME', 2: 'INCORRECT_PARAMETERS',
                                                104: 'NOT_APPLICABLE', 91: 'STILL_RUNNING'},
                  'supvisors.enable': {101: 'BAD_SUPVISORS_STATE', 10: 'BAD_NAME'},
                  'supvisors.disable': {101: 'BAD_SUPVISORS_STATE', 10: 'BAD_NAME', 91: 'STILL_RUNNING'}}

    def attach(self, run):
        Monitor.attach(self, run)
        run.world.listeners.append(self.on_event)

    def on_event(self, ev):
        kind = ev['k']
        if kind == 'rpc_call' and ev.get('src') == 'user' and ev['method'] == 'supvisors.update_numprocs':
            # the true process states of the target when the request arrives (the fault is reported after the callee has
            # run the rest of its loop iteration, during which processes may have stopped and been removed)
            inst = self.run.world.instances.get(ev['dst'])
            self.at_call = dict(inst.running_truth()) if inst is not None else {}
        elif kind == 'rpc_fault' and ev.get('src') == 'user' and ev['method'] in self.DOCUMENTED:
            self.judge(ev['method'], ev['args'], ev['code'], ev['text'], ev['dst'], ev['t'])
        elif kind == 'rpc_ret' and ev.get('src') == 'user' and ev['method'] in self.DOCUMENTED:
            self.count('configuration_requests_answered')
        elif kind == 'rpc_deferred_done' and ev.get('src') == 'user' and ev['method'] in self.DOCUMENTED:
            if ev.get('fault'):
                self.judge(ev['method'], ev['args'], ev['fault'][0], ev['fault'][1], ev['inst'], ev['t'])
            else:
                self.count('configuration_requests_answered')

    def judge(self, method, args, code, text, nick, t):
        self.count('configuration_requests_answered')
        self.count('configuration_requests_refused')
        if code not in self.DOCUMENTED[method]:
            mech = ''
            inst = self.run.world.instances.get(nick)
            if code == 30 and method == 'supvisors.update_numprocs' and inst is not None and 'processes=' in text:
                # cause tested on the real Supervisor: every process named by the fault is STOPPING there right now
                # (it was already stopping when the decrease was requested without wait)
                import ast
                try:
                    names = ast.literal_eval(text.split('processes=', 1)[1])
                except (ValueError, SyntaxError):
                    names = []
                truth = inst.running_truth()
                # FAILED is the answer of the final confirmation of the method itself (_check_process_insertion /
                # _check_process_deletion: deliberate although not listed in the docstring): it is accepted when it is
                # TRUE on the real Supervisor - a process in excess that still exists and is not marked for removal
                # (the removal was cancelled by a later opposite request), a new process that does not exist
                try:
                    value = int(ast.literal_eval(args)[1]) if isinstance(args, str) else int(args[1])
                except (ValueError, SyntaxError, IndexError, TypeError):
                    value = None
                truthful = bool(names) and value is not None
                for name in names:
                    group, _, pname = name.partition(':')
                    proc = inst.sd.process_groups[group].processes.get(pname) if group in inst.sd.process_groups \
                        else None
                    present = proc is not None and not getattr(proc, 'obsolete', False)
                    index = int(pname.rsplit('_', 1)[1]) if pname.rsplit('_', 1)[-1].isdigit() else 1
                    in_excess = value is not None and index > value
                    if in_excess != present:
                        truthful = False
                if truthful:
                    self.count('failed_answers_that_are_true')
                    return
                at_call = getattr(self, 'at_call', {})
                if names and all(truth.get(n) == 40 or at_call.get(n) == 40 for n in names):
                    mech = ':process-already-stopping-when-the-decrease-is-requested-without-wait'
            self.violate(f"C16/undocumented-fault:{method.split('.')[1]}:{code}{mech}",
                         f'{method}{args} on {nick} at vt={t - BASE_TIME:.3f} answered the fault {code} ({text}), which '
                         f'is not one of the documented faults of this request {sorted(self.DOCUMENTED[method].values())}')


# ---------------------------------------------------------------------------------------------------
# C02

GRAPH = {
    'OFF': {'SYNCHRONIZATION'},
    'SYNCHRONIZATION': {'OFF', 'ELECTION'},
    'ELECTION': {'OFF', 'SYNCHRONIZATION', 'DISTRIBUTION', 'RESTARTING', 'SHUTTING_DOWN'},
    'DISTRIBUTION': {'OFF', 'SYNCHRONIZATION', 'ELECTION', 'OPERATION', 'RESTARTING', 'SHUTTING_DOWN'},
    'OPERATION': {'OFF', 'SYNCHRONIZATION', 'ELECTION', 'CONCILIATION', 'RESTARTING', 'SHUTTING_DOWN'},
    'CONCILIATION': {'OFF', 'SYNCHRONIZATION', 'ELECTION', 'OPERATION', 'RESTARTING', 'SHUTTING_DOWN'},
    'RESTARTING': {'FINAL'},
    'SHUTTING_DOWN': {'FINAL'},
    'FINAL': set(),
}


class StateGraphMonitor(Monitor):
    """ C02: every change of the published Supvisors state is an edge of the documented graph; Master-driven
    states are entered with a known Master seen RUNNING; a non-Master enters them after its Master. """

    def attach(self, run):
        Monitor.attach(self, run)
        self.last = {}        # (nick, inc) -> state name
        self.entered = {}     # (nick, inc) -> set of states published while declaring itself Master
        self.per_step = {}
        self.cycles = {}      # (nick, inc) -> [(start time, states published as Master since its last ELECTION)]
        self.last_cut_event = -1e9
        run.world.listeners.append(self.on_cut_event)
        self.transitions = set()
        run.world.on_hook('send_state_event', self.on_state)
        self.newest = {}      # (receiver nick, inc, source identifier) -> (stamp, state) newest payload received
        self.received_cycle = {}   # same key -> states received since the last ELECTION (or earlier state) received
        run.world.on_hook('fsm_state_event', self.on_state_received)

    def on_state_received(self, inst, status, event):
        """ State and modes of a peer received by an instance (publication, or answer of a handshake): the newest one
        by emission stamp is what the instance knows of that peer. """
        key = (inst.nick, inst.inc, status.identifier)
        stamp = event.get('now_monotonic', 0.0)
        state = event.get('fsm_statename')
        if stamp >= self.newest.get(key, (-1.0, None))[0]:
            self.newest[key] = (stamp, state)
            # the cycle of that peer as this instance has received it: reopened by every ELECTION (or earlier state)
            if state in ('OFF', 'SYNCHRONIZATION', 'ELECTION') or key not in self.received_cycle:
                self.received_cycle[key] = set()
            self.received_cycle[key].add(state)
        else:
            self.count('older_state_payloads_received_after_newer_ones')

    def on_state(self, inst, payload):
        w = self.run.world
        key = (inst.nick, inst.inc)
        state = payload['fsm_statename']
        prev = self.last.get(key, 'OFF')
        master = payload['master_identifier']
        mine = payload['identifier']
        if master == mine:
            self.entered.setdefault(key, set()).add(state)
            # cycles of the Master: every ELECTION (or earlier state) opens a new one
            cycles = self.cycles.setdefault(key, [(w.now, set())])
            if state in ('OFF', 'SYNCHRONIZATION', 'ELECTION') and state != prev:
                cycles.append((w.now, set()))
                del cycles[:-6]
            cycles[-1][1].add(state)
        if state == prev:
            return
        self.last[key] = state
        self.count('state_changes')
        step = (key, w.steps)
        self.per_step[step] = self.per_step.get(step, 0) + 1
        if self.per_step[step] > 64:
            self.violate('C02/livelock', f'{inst.nick}: more than 64 state changes while handling one event')
            raise RuntimeError('livelock in FSM')
        role = 'master' if master == mine else ('slave' if master else 'nomaster')
        self.transitions.add((prev, state, role))
        if state not in GRAPH.get(prev, ()):
            self.violate(f'C02/edge:{prev}->{state}', f'{inst.nick} published {prev} -> {state} (role {role}) at '
                         f'vt={vt(w)}, which is not an edge of the documented graph')
        if state in MASTER_DRIVEN:
            self.count('master_driven_entries')
            if not master:
                self.violate(f'C02/no-master:{state}{self.local_shutdown(state)}',
                             f'{inst.nick} entered {state} (from {prev}) without a Master at vt={vt(w)}')
            elif payload['instance_states'].get(master) != 'RUNNING':
                self.violate(f'C02/master-not-running:{state}',
                             f'{inst.nick} entered {state} with Master {master} seen '
                             f"{payload['instance_states'].get(master)} at vt={vt(w)}")
            elif master != mine:
                self.count('slave_entries')
                mnick = w.by_identifier.get(master)
                minst = w.instances.get(mnick)
                mkey = (mnick, minst.inc if minst else 0)
                known = self.newest.get((inst.nick, inst.inc, master))
                if state in ('DISTRIBUTION', 'OPERATION', 'CONCILIATION') and known:
                    # what the instance follows is the newest state it has received from its Master
                    self.count('slave_entries_checked_against_the_newest_state_received')
                    # the Master has been through DISTRIBUTION if it is seen in OPERATION / CONCILIATION, through
                    # OPERATION if it is seen in CONCILIATION; RESTARTING / SHUTTING_DOWN say nothing (ELECTION ->
                    # SHUTTING_DOWN is an edge)
                    implied = {'DISTRIBUTION': {'DISTRIBUTION', 'OPERATION', 'CONCILIATION'},
                               'OPERATION': {'OPERATION', 'CONCILIATION'}, 'CONCILIATION': {'CONCILIATION'}}[state]
                    cycle = self.received_cycle.get((inst.nick, inst.inc, master), set())
                    if not cycle & implied:
                        self.violate(f'C02/slave-ahead-of-what-it-has-received-from-its-master:{state}',
                                     f'{inst.nick} entered {state} at vt={vt(w)} although what it has received from its '
                                     f'Master {mnick} since the last ELECTION (or earlier state) of that Master is '
                                     f'{sorted(cycle)} (newest: {known[1]}, stamp {round(known[0], 3)})')
                if state not in self.entered.get(mkey, ()):
                    # the Master may have crashed and restarted meanwhile: look at its previous incarnation too
                    prev_key = (mnick, mkey[1] - 1)
                    if not (minst and not minst.alive) and state not in self.entered.get(prev_key, ()):
                        self.violate(f'C02/slave-before-master:{state}{self.local_shutdown(state)}',
                                     f'{inst.nick} entered {state} at vt={vt(w)} although its Master {mnick} has '
                                     f'never published it (Master published {sorted(self.entered.get(mkey, ()))})')
                elif state in ('DISTRIBUTION', 'OPERATION', 'CONCILIATION') and minst and minst.alive and not known:
                    # (only when nothing is known of what the instance has received from its Master: otherwise the
                    # reception-based clause above decides - a publication queued behind a slow handshake in the proxy
                    # of the Master is delivered late, in order, and the instance rightly follows what it has)
                    # ... and in the current cycle of the Master (since its last ELECTION), or in the previous one if
                    # the new cycle has just begun (its ELECTION publication may still be in flight)
                    cycles = self.cycles.get(mkey, [])
                    self.count('slave_entries_checked_against_master_cycle')
                    recent = any(state in cycles[i][1] for i in range(len(cycles))
                                 if i == len(cycles) - 1 or cycles[i + 1][0] > w.now - TICK)
                    if cycles and not recent and (w.cut or w.now - self.last_cut_event < 6 * TICK):
                        # publications blocked by a cut link are delivered late, in order: the slave follows an old
                        # cycle of its Master
                        self.count('slave_entries_after_a_cut_not_judged')
                    elif cycles and not recent:
                        self.violate(f'C02/slave-before-master-in-this-cycle:{state}',
                                     f'{inst.nick} entered {state} at vt={vt(w)} although its Master {mnick} has not '
                                     f'published it since its last ELECTION (at vt='
                                     f'{round(cycles[-1][0] - BASE_TIME, 3)}: {sorted(cycles[-1][1])})')

    def on_cut_event(self, ev):
        if ev['k'] in ('cut', 'heal'):
            self.last_cut_event = ev['t']

    def local_shutdown(self, state):
        """ Mechanism qualifier: SHUTTING_DOWN entered in a run where supvisors_failure_strategy=SHUTDOWN is
        effective (each instance then decides on its own) and no user shutdown was requested. """
        from vsim.gen import effective_options
        run = self.run
        if state == 'SHUTTING_DOWN' and effective_options(run.scenario['options'])['failure'] == 'SHUTDOWN' \
                and not any('shutdown' in d['kind_eff'] for d in run.disturbances):
            return '/failure-strategy-SHUTDOWN'
        return ''

    def finish(self, run):
        return self.violations


# ---------------------------------------------------------------------------------------------------
# C01

class MasterMonitor(Monitor):
    """ C01: agreement / validity / kept Master / rule / Master-only automatic actions. """

    def attach(self, run):
        Monitor.attach(self, run)
        w = run.world
        w.on_hook('send_start_process', self.on_request('start'))
        w.on_hook('send_stop_process', self.on_request('stop'))

    def on_request(self, what):
        def cb(inst, identifier, namespec, *rest):
            w = self.run.world
            self.count('automatic_requests')
            try:
                master = peek(w, inst.nick, 'supvisors.get_master_identifier').get('identifier', '')
            except Fault:
                master = ''
            if master != inst.identifier:
                self.violate(f'C01/non-master-{what}', f'{inst.nick} emitted an automatic {what} request for '
                             f'{namespec} on {identifier} at vt={vt(w)} while its Master is {master or None}')
        return cb

    def finish(self, run):
        w = run.world
        out = run.outcome
        stage = out.get('stage2') or out.get('stage1')
        vws, comps, cliques = stage['views'], stage['groups'], stage['cliques']
        nontrivial = False
        for comp, clique in zip(comps, cliques):
            if not clique:
                self.count('groups_not_clique')
                continue
            if not sync_satisfiable(w, comp):
                self.count('groups_sync_unsatisfiable')
                # still: if masters are reported they must not contradict validity
                continue
            self.count('groups_evaluated')
            ok, mnick, reason = master_agreement(w, comp, vws)
            if not ok:
                self.violate('C01/no-convergence:' + reason.split(':')[0].split('{')[0].strip()[:40],
                             f'group {comp} not converged {run.script["k_ticks"] * 2} ticks after the last '
                             f'disturbance (vt={stage["vt"]}): {reason}; views='
                             f'{ {n: (vws[n]["state"], w.by_identifier.get(vws[n]["master"])) for n in comp} }',
                             case=run.describe())
                continue
            if len(comp) > 1:
                nontrivial = True
            self.check_kept_and_rule(run, comp, mnick)
        self.scan_kept_master(run)
        self.nontrivial = nontrivial and bool(run.disturbances)
        return self.violations

    def scan_kept_master(self, run):
        """ Kept-Master clause over the whole history of per-tick samples: when a group converged on M is later
        converged on M' != M although M stayed alive (same incarnation) in the group, with no link cut in between,
        M' must have been a Master already recognised by some live instance when the group was on M. """
        w = run.world
        records = {}   # master nick -> record of the last sample where a group was converged on it
        # a cut keeps producing effects after it is healed: the ticks missed meanwhile make the failure detection fire
        # up to inactivity_ticks (+ margin) ticks later, and the Master may legitimately change then
        from vsim.gen import effective_options
        grace = (effective_options(run.scenario['options'])['inactivity_ticks'] + 3) * TICK
        last_cut_activity, last_count = -1e9, 0
        for sample in run.samples:
            vws, incs = sample['views'], sample['incs']
            if sample['cut'] or sample['cut_count'] != last_count:
                last_cut_activity, last_count = sample['vt'], sample['cut_count']
            for rec in records.values():
                m = rec['master']
                if sample['cut'] or sample['cut_count'] != rec['cut_count'] or incs.get(m) != rec['inc'] or \
                        (m in vws and vws[m]['state'] in ('RESTARTING', 'SHUTTING_DOWN', 'FINAL', 'OFF')):
                    rec['valid'] = False
            recognised = {w.by_identifier.get(v['master_declared']) for v in vws.values() if v['master_declared']}
            for comp, clique in zip(sample['groups'], sample['cliques']):
                if not clique:
                    continue
                ok, mnick, _ = master_agreement(w, comp, vws)
                if not ok:
                    continue
                for old, rec in list(records.items()):
                    if old == mnick or old not in comp:
                        continue
                    if rec['valid'] and not (set(rec['group']) - {old}).isdisjoint(comp):
                        self.count('kept_master_scans')
                        if mnick not in rec['recognised']:
                            self.violate('C01/master-not-kept', f'group {rec["group"]} was converged on Master {old} '
                                         f'at vt={rec["vt"]}; {old} stayed alive in the group, no link was cut, and '
                                         f'{mnick} was recognised as Master by nobody at that time, yet the group '
                                         f'{comp} is converged on {mnick} at vt={sample["vt"]}', case=run.describe())
                    del records[old]
                records[mnick] = {'master': mnick, 'vt': sample['vt'], 'group': comp, 'inc': incs.get(mnick),
                                  'valid': not sample['cut'] and sample['vt'] - last_cut_activity > grace,
                                  'recognised': recognised,
                                  'cut_count': sample['cut_count']}

    def check_kept_and_rule(self, run, comp, mnick):
        """ Evaluated only in single-disturbance windows (see DESIGN.md 8/C01). """
        w = run.world
        k = run.script['k_ticks']
        dist = [d for d in run.disturbances if not d.get('noop')]
        if not dist:
            # start-up: when every option requires all the instances, the election is held among all of them
            eff_sync = set(x for x in run.scenario['options']['synchro_options'].split(',') if x)
            if eff_sync <= {'STRICT', 'LIST'} and run.script['late'] is None and \
                    len(comp) == len(w.specs) and max(run.script['boot'].values()) <= 8.0:
                self.count('rule_evaluations_startup')
                expected = rule_pick(w, comp)
                if mnick != expected:
                    self.violate('C01/rule-startup', f'start-up election among {comp} chose {mnick}, the documented '
                                 f'rule gives {expected} (core={run.scenario["options"].get("core_identifiers")})',
                                 case=run.describe())
            return
        if len(dist) != 1:
            return
        d = dist[0]
        pre = next((p for p in d['pre'] if set(comp) & set(p['group'])), None)
        pres = [p for p in d['pre'] if set(comp) & set(p['group'])]
        if not pres or not all(p['converged'] for p in pres):
            return
        kind = d['kind_eff']
        if run.script['late'] is not None:
            return
        if len(pres) == 1:
            old = pres[0]['master']
            old_inst = w.instances.get(old)
            survived = old in comp and old_inst.alive and not (kind in ('crash', 'restart') and d['target'] == old)
            if kind in ('partition', 'cutlink'):
                return  # a split makes several Masters recognised for a while: only agreement is demanded
            if survived:
                self.count('kept_master_evaluations')
                if mnick != old:
                    self.violate('C01/master-not-kept', f'Master {old} stayed alive and reachable through a '
                                 f'{kind} of {d["target"]} but the group {comp} ended with Master {mnick}',
                                 case=run.describe())
            elif kind == 'crash' and d['target'] == old:
                self.count('rule_evaluations_master_loss')
                expected = rule_pick(w, comp)
                if mnick != expected:
                    self.violate('C01/rule-master-loss', f'after the loss of Master {old}, survivors {comp} elected '
                                 f'{mnick}; the documented rule gives {expected}', case=run.describe())


# ---------------------------------------------------------------------------------------------------
# C08

class ProgressMonitor(Monitor):
    """ C08: bounded return to OPERATION after disturbances stop; nobody parked. """

    def on_livelock(self, run, exc):
        # the extreme way of being parked: the state machine loops inside one call and time stops for the instance
        self.violate('C08/livelock', f'a call into an instance never returns: {exc}', case=run.describe())

    def finish(self, run):
        w = run.world
        out = run.outcome
        stage = out.get('stage2') or out.get('stage1')
        vws, comps, cliques = stage['views'], stage['groups'], stage['cliques']
        eff_failure = run.scenario['options'].get('supvisors_failure_strategy')
        user = run.scenario['options'].get('conciliation_strategy') == 'USER'
        for comp, clique in zip(comps, cliques):
            if not clique:
                self.count('groups_not_clique')
                continue
            if not sync_satisfiable(w, comp):
                self.count('groups_sync_unsatisfiable')
                continue
            self.count('groups_evaluated')
            ok, reason = operational(w, comp, vws, user_conciliation=user)
            if not ok:
                states = {n: vws[n]['state'] for n in comp}
                refused = self.refusals(run, comp)
                ok_m, mnick, _ = master_agreement(w, comp, vws)
                allowed = ('OPERATION', 'CONCILIATION') if user else ('OPERATION',)
                if not ok_m:
                    key = 'no-master-agreement:' + '+'.join(sorted(set(states.values())))
                elif vws[mnick]['state'] not in allowed:
                    key = 'master-parked:' + vws[mnick]['state']
                    if vws[mnick]['state'] == 'CONCILIATION':
                        # conflicts that only exist in a stale view of the Master can never be conciliated (the stop
                        # requests answer NOT_RUNNING, the conflict is seen again): consequence of the C12 finding
                        try:
                            seen = peek(w, mnick, 'supvisors.get_conflicts')
                            untrue = [c for c in seen if sum(
                                1 for i in c['identifiers']
                                if w.instances[w.by_identifier[i]].alive and
                                w.instances[w.by_identifier[i]].running_truth().get(
                                    f"{c['application_name']}:{c['process_name']}") in (10, 20, 30)) < 2]
                            if seen and len(untrue) == len(seen):
                                key += ':conflict-only-in-a-stale-view'
                        except (Fault, KeyError):
                            pass
                elif any(s != vws[mnick]['state'] for s in states.values()):
                    behind = sorted({s for n, s in states.items() if s != vws[mnick]['state']})
                    key = 'slave-behind:' + '+'.join(behind) + '/master=' + vws[mnick]['state']
                else:
                    key = 'jobs-pending'
                if refused:
                    key += '/refused:' + refused
                self.violate('C08/' + key, f'group {comp} not back in OPERATION {2 * run.script["k_ticks"]} ticks '
                             f'after the last disturbance: {reason}; states={states} masters='
                             f'{ {n: w.by_identifier.get(vws[n]["master"]) for n in comp} }'
                             f'{" refused transition " + refused if refused else ""}', case=run.describe())
        return self.violations

    @staticmethod
    def refusals(run, comp):
        """ A set_state refusal repeated on the last ticks is the witness of a parked instance. """
        w = run.world
        for n in comp:
            inst = w.instances[n]
            recent = [msg for t, lvl, msg in inst.logger.records[-40:]
                      if 'unexpected transition' in msg and t > w.now - 4 * TICK]
            if len(recent) >= 2:
                m = re.search(r'from (\w+)\s+to (\w+)', recent[-1])
                if m:
                    return f'{m.group(1)}->{m.group(2)}'
        return ''
