""" C02 - Supvisors state only moves along the documented state graph. """
from monitors.lib import StateGraphMonitor
from workloads.membership import Run

PROPERTY = 'C02'
LEVEL = 'exploration'
RULE = ('a quarter of the cases: closing-in-election family (a process whose crash shuts down / restarts Supvisors '
        'dies when the Master publishes ELECTION after a peer came back); slave entries are also checked against the '
        'current cycle of the Master (since its last ELECTION); general family: '
        'every STATE publication of every instance incarnation is captured at emission (wrapper on '
        'rpc_handler.send_state_event) in generated clusters under generated fault scripts, with user '
        'restart / shutdown / end_sync requests on random instances; each change is checked against an edge table '
        'written from the statement; distinct non-trivial = distinct (from, to, role) transitions observed x '
        'scenario shape')
ASSUMPTIONS = ['edge table of DESIGN.md 8/C02 (a superset of the implementation table on the documented returns)']
FLOORS = {'quick': {'state_changes': 3000, 'master_driven_entries': 1000, 'slave_entries': 400,
                    'slave_entries_checked_against_the_newest_state_received': 400,
                    'older_state_payloads_received_after_newer_ones': 100},
          'thorough': {'state_changes': 60000, 'master_driven_entries': 20000, 'slave_entries': 8000,
                       'slave_entries_checked_against_the_newest_state_received': 8000,
                       'older_state_payloads_received_after_newer_ones': 2000}}
COUNT = {'quick': 360, 'thorough': 8000}
BUDGET_S = {'quick': 90, 'thorough': 700}

KNOBS = {'n_min': 1, 'n_max': 5, 'late_p': 0.3, 'trigger_p': 0.4, 'allow_user': True, 'allow_shutdown': True,
         'kinds': ['crash', 'restart', 'restart', 'partition', 'cutlink', 'crash_master', 'restart_master',
                   'proc_kill', 'user_restart', 'user_shutdown', 'user_restart', 'user_restart_shutdown',
                   'user_shutdown_restart', 'user_restart_shutdown', 'proc_kill_closing', 'proc_kill_closing'],
         # processes that take time to stop keep the Master in RESTARTING / SHUTTING_DOWN for a while
         'behaviours': {'*': [{'term': 3.0}]},
         'apps': {'n_apps': (1, 3), 'n_progs': (1, 3), 'startsecs': (0, 8), 'stopwaitsecs': (4, 9),
                  'supvisors_failure_p': 0.25}}


# a quarter of the cases: a process whose crash shuts down / restarts Supvisors dies while the Master goes through
# ELECTION (a peer has just come back) - the documented ELECTION -> SHUTTING_DOWN edge with slaves still in ELECTION
CLOSING_KNOBS = {'n_min': 2, 'n_max': 4, 'late_p': 0.0, 'trigger_p': 0.0, 'fence': 'false',
                 'synchro': ['LIST', 'TIMEOUT'], 'kinds': ['proc_kill_closing'], 'n_dist': [1, 1, 2],
                 'behaviours': {'*': [{'term': 3.0}]},
                 'apps': {'n_apps': (1, 2), 'n_progs': (2, 4), 'startsecs': (0, 3), 'stopwaitsecs': (4, 9),
                          'supvisors_failure_p': 0.7, 'managed_p': 1.0}}


# a family with slow handshakes (each of its XML-RPCs takes 0 - 3 s): the state and modes read during the handshake of
# a (re)joining instance are delivered after the newer publications of the peer
SLOW_KNOBS = {'n_min': 2, 'n_max': 4, 'late_p': 0.5, 'trigger_p': 0.2, 'fence': 'false',
              'kinds': ['restart', 'restart', 'restart_master', 'cutlink', 'crash'], 'n_dist': [1, 2, 3],
              'handshake_skew': [0.0, 0.3, 1.0, 2.0, 3.0]}


# one-way link cuts longer than the failure detection, with slow handshakes: the cut-off side drops its peer (its
# Master, possibly) and handshakes again when the link heals, while everybody goes through ELECTION
ONEWAY_KNOBS = {'n_min': 2, 'n_max': 4, 'late_p': 0.1, 'trigger_p': 0.3, 'fence': 'false', 'both_p': 0.0,
                'kinds': ['cutlink'], 'n_dist': [1, 2, 3], 'handshake_skew': [0.0, 0.5, 1.5, 3.0, 5.0]}


def plan(tier, seed):
    return [{'seed': seed * 1000003 + i, 'family': 'closing-in-election' if i % 4 == 3 else 'general'}
            for i in range(COUNT[tier])] + \
        [{'seed': seed * 1000003 + 800000 + i, 'family': 'slow-handshake'} for i in range(COUNT[tier] // 3)] + \
        [{'seed': seed * 1000003 + 810000 + i, 'family': 'one-way-cut'} for i in range(COUNT[tier])]


def run_case(case):
    mon = StateGraphMonitor()
    run = Run(case, {'closing-in-election': CLOSING_KNOBS, 'slow-handshake': SLOW_KNOBS, 'one-way-cut': ONEWAY_KNOBS}.get(case.get('family'), KNOBS),
              [mon])
    violations = run.execute()
    sig = None
    if mon.transitions:
        sig = run.shape() + '|' + ';'.join(sorted('>'.join(t) for t in mon.transitions))
    return {'violations': violations, 'counters': run.counters, 'signature': sig,
            'sample': {'case': run.describe(), 'transitions': sorted('>'.join(t) for t in mon.transitions)},
            'transitions': sorted('>'.join(t) for t in mon.transitions)}


def coverage_extra(results):
    seen = {}
    for res in results:
        for t in res.get('transitions', []) or []:
            seen[t] = seen.get(t, 0) + 1
    return {'transition_multiset': seen, 'distinct_transitions': len(seen)}
