""" C10 - every start / stop job terminates in bounded ticks whatever gets lost. """
from monitors.lib_apps import Tracker, JobTerminationMonitor
from workloads.apps import Run

PROPERTY = 'C10'
LEVEL = 'exploration'
RULE = ('generated clusters and rules with hostile process behaviours (never spawning, crash at start, repeated '
        'BACKOFF, ignoring SIGTERM, ignoring SIGKILL) and a lossy channel (0 / 10 / 30 / 60 % of the PROCESS '
        'publications between instances silently dropped), targets crashing at the emission of a start request, '
        'instance losses; oracle evaluated every tick: starting / stopping jobs reported by get_supvisors_state for '
        'at most B ticks after the last request of the instance (B from startsecs / stopwaitsecs / startretries / '
        'inactivity_ticks), and every job given up displayed FATAL / STOPPED on every instance two ticks later; '
        'non-trivial = run in which a job was given up or events were dropped; distinct = distinct (topology, '
        'strategies, distributions, actions) tuples')
ASSUMPTIONS = ['bounded-progress restatement: B = (2 + ceil(max startsecs / 5) + 1) x (max startretries + 1) + '
               'inactivity_ticks + 6 ticks for starts, 2 + ceil(max stopwaitsecs / 5) + 1 + inactivity_ticks + 6 '
               'for stops', 'TICK and forced-state publications are not dropped (only real process events are)',
               'documented exception honoured: a wait_exit program that is running and does not exit']
FLOORS = {'quick': {'job_flag_observations': 1500, 'given_up_jobs': 150, 'forced_state_views_checked': 100,
                    'dropped_process_publications': 500, 'injected_target_restarts': 40,
                    'numprocs_requests_served': 150},
          'thorough': {'job_flag_observations': 40000, 'given_up_jobs': 4000, 'forced_state_views_checked': 2500,
                       'dropped_process_publications': 12000, 'injected_target_restarts': 800,
                       'numprocs_requests_served': 2500}}
COUNT = {'quick': 400, 'thorough': 10000}
BUDGET_S = {'quick': 55, 'thorough': 540}

KNOBS = {'stagger': [0.0, 1.0, 4.0, 30.0, 60.0], 'n_min': 2, 'n_max': 4,
         'apps': {'n_apps': (1, 3), 'n_progs': (1, 4), 'seq_max': 3, 'startsecs': (0, 8), 'stopwaitsecs': (1, 8),
                  'per_instance_diff': 0.1, 'managed_p': 0.9, 'allow_wait_exit': True},
         'behaviours': ['normal'] * 4 + ['slow_stop', 'stubborn', 'immortal', 'immortal', 'crash_early',
                                         'backoff_then_run', 'fork_error', 'no_file', 'exit_unexpected'],
         'actions': ['start_application', 'stop_application', 'restart_application', 'start_process', 'stop_process',
                     'restart_process', 'restart_sequence', 'kill_process', 'crash'],
         'n_actions': [1, 2, 3, 4, 6], 'drop_p': [0.0, 0.1, 0.3, 0.6], 'crash_on_request_p': 0.05,
         'keep_master': True}


# an additional family: the Supervisor of the target of a start / stop request RESTARTS around the delivery of that
# request, mostly quicker than the failure detection of the requester (the job must end all the same)
RESTART_KNOBS = dict(KNOBS, crash_on_request_p=0.5, drop_p=[0.0],
                     crash_on_request_kw={'reboot_p': 1.0, 'down': (0.2, 8.0), 'stops': True, 'delay': (0.0, 1.5)},
                     behaviours=['normal'] * 6 + ['slow_stop', 'stubborn', 'slow_start'],
                     actions=['start_application', 'stop_application', 'restart_application', 'start_process',
                              'stop_process', 'restart_process', 'restart_sequence'],
                     n_actions=[2, 3, 4, 6], n_min=3, profiles=['wide', 'wide', 'lazy', 'bursty'])
RESTART_COUNT = {'quick': 160, 'thorough': 3000}


# the general family again with slow handshakes (each XML-RPC of a handshake takes 0 - 3 s, L3 engine) and instance
# restarts: requests are emitted and answered while peers are being checked again
SLOW_KNOBS = dict(KNOBS, handshake_skew=[0.0, 0.3, 1.0, 2.0, 3.0], actions=KNOBS['actions'] + ['restart', 'restart'])


# and a family where the Supervisor configuration changes while jobs are in progress: numprocs decreased (lazily or not)
# on the instances that run or are asked to run the processes, then the application restarted
DYN_KNOBS = {'n_min': 1, 'n_max': 3,
             'apps': {'n_apps': (1, 2), 'n_progs': (1, 3), 'seq_max': 2, 'startsecs': (0, 3), 'stopwaitsecs': (1, 5),
                      'per_instance_diff': 0.0, 'managed_p': 1.0, 'max_numprocs': 3, 'autorestart': ('false',)},
             'behaviours': ['normal'] * 4 + ['slow_stop'],
             'actions': ['update_numprocs', 'update_numprocs', 'update_numprocs', 'restart_application',
                         'restart_application', 'stop_then_decrease', 'start_application', 'restart_process'],
             'n_actions': [3, 4, 6, 8], 'gaps': [0.0, 0.05, 0.5, 2.0, 6.0], 'early_p': 0.0}
DYN_COUNT = {'quick': 200, 'thorough': 3000}


def plan(tier, seed):
    return [{'seed': seed * 1000003 + i} for i in range(COUNT[tier])] + \
        [{'seed': seed * 1000003 + 700000 + i, 'family': 'target-restarts-during-job'}
         for i in range(RESTART_COUNT[tier])] + \
        [{'seed': seed * 1000003 + 900000 + i, 'family': 'slow-handshake'} for i in range(COUNT[tier] // 8)] + \
        [{'seed': seed * 1000003 + 600000 + i, 'family': 'dynconf'} for i in range(DYN_COUNT[tier])]


def run_case(case):
    tracker = Tracker()
    mon = JobTerminationMonitor(tracker)
    run = Run(case, {'target-restarts-during-job': RESTART_KNOBS, 'slow-handshake': SLOW_KNOBS, 'dynconf': DYN_KNOBS}.get(case.get('family'), KNOBS),
              [tracker, mon])
    violations = run.execute()
    nontrivial = mon.counters.get('given_up_jobs', 0) > 0 or run.counters.get('dropped_process_publications', 0) > 0
    return {'violations': violations, 'counters': run.counters,
            'signature': run.shape() if nontrivial else None, 'sample': run.describe()}
