""" C03 - start sequences are honoured for applications and their processes. """
from monitors.lib_apps import Tracker, StartSequenceMonitor
from workloads.apps import Run

PROPERTY = 'C03'
LEVEL = 'exploration'
RULE = ('generated rules (1-3 applications, 1-4 programs, start_sequence 0-3 at both levels incl. ties, wait_exit, '
        'required x ABORT/STOP/CONTINUE) and process behaviours (normal, slow, backoff-then-run, crash at start, '
        'expected / unexpected exit, spawn error, no such file) on generated clusters; automatic distribution by the '
        'Master, then user start / restart / stop requests on random instances, process kills and instance losses; '
        'oracle evaluated at EVERY start request emission (hook) against the true process states: lower-sequence '
        'processes / applications finished or given up, sequence 0 never started automatically, nothing skipped, '
        'nothing requested after a required failure with ABORT / STOP; non-trivial = run with at least two checked '
        'emissions of sequenced processes; distinct = distinct (topology, strategies, distributions, actions) tuples')
ASSUMPTIONS = ['an unfinished request is one whose process is, in truth, not yet RUNNING (EXITED for wait_exit in '
               'automatic plans) nor failed on its target, with no forced state published by the requester, while '
               'the requester still sees the target RUNNING',
               'the STOP strategy clause "the application is then stopped" is not decided here (see C09/C06)']
FLOORS = {'quick': {'start_emissions': 1500, 'process_order_checks': 1000, 'automatic_emissions': 600,
                    'skip_checks': 200, 'required_failures': 20, 'restart_sequence_refused_jobs_in_progress': 60,
                    'applications_requested_behind_a_queued_process_of_theirs': 25, 'start_requests_lost': 80},
          'thorough': {'start_emissions': 40000, 'process_order_checks': 25000, 'automatic_emissions': 15000,
                       'skip_checks': 5000, 'required_failures': 500,
                       'restart_sequence_refused_jobs_in_progress': 1000,
                       'applications_requested_behind_a_queued_process_of_theirs': 400,
                       'start_requests_lost': 1500}}
COUNT = {'quick': 480, 'thorough': 12000}
BUDGET_S = {'quick': 55, 'thorough': 540}

KNOBS = {'n_min': 1, 'n_max': 4,
         'apps': {'n_apps': (1, 3), 'n_progs': (1, 4), 'seq_max': 3, 'allow_wait_exit': True, 'startsecs': (0, 6),
                  'per_instance_diff': 0.1, 'managed_p': 0.9},
         'actions': ['start_application', 'stop_application', 'restart_application', 'start_process', 'stop_process',
                     'restart_process', 'restart_sequence', 'kill_process', 'crash', 'wait'],
         'disable_p': 0.1, 'crash_on_request_p': 0.06}


# an additional family: supvisors.restart_sequence is requested on an instance while another instance is in the middle
# of a (slow) start sequence requested by the user - it is refused, or at least it does not interleave with it
CONCURRENT_KNOBS = {'n_min': 2, 'n_max': 4,
                    'apps': {'n_apps': (1, 2), 'n_progs': (2, 4), 'seq_max': 3, 'startsecs': (4, 12),
                             'per_instance_diff': 0.0, 'managed_p': 1.0, 'autorestart': ('false',)},
                    'behaviours': ['normal'],
                    'actions': ['restart_application', 'start_application', 'stop_application'],
                    'then': ['restart_sequence', 'restart_sequence'], 'n_actions': [1, 2],
                    'gaps': [0.3, 1.0, 3.0, 6.0, 10.0], 'early_p': 0.0}
CONCURRENT_COUNT = {'quick': 200, 'thorough': 3000}


# and a family where, on one instance, a single process of an application (preferably a wait_exit one) is requested
# while the Starter is busy with another application, and the application itself is requested right behind it
QUEUED_KNOBS = {'n_min': 1, 'n_max': 3,
                'apps': {'n_apps': (2, 3), 'n_progs': (2, 4), 'seq_max': 3, 'allow_wait_exit': True, 'wait_exit_p': 0.5,
                         'startsecs': (3, 8), 'per_instance_diff': 0.0, 'managed_p': 1.0, 'autorestart': ('false',)},
                'behaviours': ['normal'], 'actions': ['queued_process_then_application'], 'n_actions': [1, 2],
                'gaps': [20.0, 40.0], 'early_p': 0.0}
QUEUED_COUNT = {'quick': 160, 'thorough': 3000}


# the general family again with slow handshakes (each XML-RPC of a handshake takes 0 - 3 s, L3 engine) and instance
# restarts: requests are emitted and answered while peers are being checked again
SLOW_KNOBS = dict(KNOBS, handshake_skew=[0.0, 0.3, 1.0, 2.0, 3.0], actions=KNOBS['actions'] + ['restart', 'restart'])


# and a family with requests that are never answered (the start_args XML-RPC is lost, also towards the requester itself):
# the process is given up after the tick margin, then the sequence goes on, one start_sequence group at a time
LOST_KNOBS = {'n_min': 1, 'n_max': 3,
              'apps': {'n_apps': (1, 2), 'n_progs': (3, 5), 'seq_max': 4, 'allow_wait_exit': False, 'startsecs': (0, 3),
                       'per_instance_diff': 0.0, 'managed_p': 1.0, 'autorestart': ('false',)},
              'behaviours': ['normal'], 'lost_requests_p': [0.15, 0.3],
              'actions': ['restart_application', 'start_application', 'restart_sequence', 'stop_application'],
              'n_actions': [1, 2, 3], 'gaps': [20.0, 40.0], 'early_p': 0.0}
LOST_COUNT = {'quick': 160, 'thorough': 3000}


def plan(tier, seed):
    return [{'seed': seed * 1000003 + i} for i in range(COUNT[tier])] + \
        [{'seed': seed * 1000003 + 800000 + i, 'family': 'concurrent-restart-sequence'}
         for i in range(CONCURRENT_COUNT[tier])] + \
        [{'seed': seed * 1000003 + 700000 + i, 'family': 'application-behind-a-queued-process'}
         for i in range(QUEUED_COUNT[tier])] + \
        [{'seed': seed * 1000003 + 900000 + i, 'family': 'slow-handshake'} for i in range(COUNT[tier] // 8)] + \
        [{'seed': seed * 1000003 + 600000 + i, 'family': 'unanswered-requests'} for i in range(LOST_COUNT[tier])]


def run_case(case):
    tracker = Tracker()
    mon = StartSequenceMonitor(tracker)
    run = Run(case, {'concurrent-restart-sequence': CONCURRENT_KNOBS,
                     'application-behind-a-queued-process': QUEUED_KNOBS, 'slow-handshake': SLOW_KNOBS,
                     'unanswered-requests': LOST_KNOBS}.get(case.get('family'), KNOBS),
              [tracker, mon])
    violations = run.execute()
    for action in run.actions:
        if action['kind'] == 'restart_sequence' and isinstance(action.get('res'), tuple):
            refused = action['res'][0] != 'ok' and 'jobs in progress' in str(action['res'])
            run.count('restart_sequence_refused_jobs_in_progress' if refused else 'restart_sequence_other_outcomes')
    return {'violations': violations, 'counters': run.counters,
            'signature': run.shape() if getattr(mon, 'nontrivial', False) else None, 'sample': run.describe()}
