""" C11 - process status is a deterministic synthesis of per-instance reports.

Reference-model monitor: the real ProcessStatus (on a real Supvisors context) is driven by generated histories
and compared, after every operation, with a small executable specification written from the property statement.
"""
import random

from vsim.single import Single

PROPERTY = 'C11'
LEVEL = 'exploration'
RULE = ('generated histories (length <= 30, 1-4 instances) of add_info / update_info (any state, any order, also '
        'orders Supervisor never produces) / force_state (older, equal and newer than the last event of the '
        'targeted instance, unknown or empty target) / invalidate_identifier / remove_identifier (only for an '
        'instance whose last report is stopped-like: Supervisor only deletes stopped processes) applied to the '
        'real ProcessStatus; after every operation serial() (statecode, identifiers, expected_exit), conflicting() '
        'and the real state are compared with the reference model; non-trivial = history reaching a conflict, a '
        'forced state or an instance loss; distinct = distinct (per-instance state vector, listed set, forced) '
        'tuples reached')
ASSUMPTIONS = ['where the statement leaves the outcome open (a snapshot received while a forced state is '
               'displayed, forced state with the very same timestamp as the last event, BACKOFF vs STARTING as '
               '"most advanced" state) the model follows the implementation',
               'removal of an entry is only generated for an instance whose last report is stopped-like']
FLOORS = {'quick': {'operations': 100000, 'conflict_comparisons': 5000, 'forced_comparisons': 3000,
                    'dismissed_forced': 300, 'loss_comparisons': 1000},
          'thorough': {'operations': 3000000, 'conflict_comparisons': 150000, 'forced_comparisons': 100000,
                       'dismissed_forced': 10000, 'loss_comparisons': 30000}}
HISTORIES = {'quick': 400, 'thorough': 12000}   # per case
CASES = {'quick': 32, 'thorough': 64}

STOPPED, STARTING, RUNNING, BACKOFF, STOPPING, EXITED, FATAL, UNKNOWN = 0, 10, 20, 30, 40, 100, 200, 1000
STATES = [STOPPED, STARTING, RUNNING, BACKOFF, STOPPING, EXITED, FATAL, UNKNOWN]
RUNNING_STATES = (RUNNING, BACKOFF, STARTING)
STOPPED_STATES = (STOPPED, EXITED, FATAL, UNKNOWN)


class Model:
    """ Executable specification of the statement of C11. """

    def __init__(self):
        self.last = {}       # identifier -> {'state', 'expected', 'recv', 'time'}
        self.listed = set()
        self.forced = None   # forced state or None
        self.recv = 0

    def _report(self, ident, state, expected, event_time):
        self.recv += 1
        self.last[ident] = {'state': state, 'expected': expected, 'recv': self.recv, 'time': event_time}
        if state in RUNNING_STATES:
            self.listed.add(ident)
        elif state in STOPPED_STATES:
            self.listed.discard(ident)
        # STOPPING: stays listed if it was, is not added otherwise

    def snapshot(self, ident, state, expected, event_time):
        self._report(ident, state, expected, event_time)

    def event(self, ident, state, expected, event_time):
        self._report(ident, state, expected, event_time)
        self.forced = None

    def force(self, ident, state, event_time):
        """ Returns True (applied), False (dismissed) or None (under-determined: same timestamp). """
        info = self.last.get(ident)
        if info is not None:
            if info['time'] > event_time:
                return False
            if info['time'] == event_time:
                return None
        self.forced = state
        return True

    def lose(self, ident):
        if ident in self.listed:
            info = self.last[ident]
            self._report(ident, FATAL, False, info['time'])
            return True
        return False

    def remove(self, ident):
        del self.last[ident]
        self.listed.discard(ident)

    # observable synthesis
    def real_state(self):
        """ Set of acceptable values for the synthesised state. """
        if self.listed:
            states = {self.last[i]['state'] for i in self.listed}
            if len(self.listed) == 1:
                return states
            for s in (RUNNING,):
                if s in states:
                    return {s}
            if BACKOFF in states and STARTING in states:
                return {BACKOFF, STARTING}
            for s in (BACKOFF, STARTING, STOPPING):
                if s in states:
                    return {s}
        if any(info['state'] == STOPPING for info in self.last.values()):
            return {STOPPING}
        if not self.last:
            return None
        info = max(self.last.values(), key=lambda x: x['recv'])
        return {info['state']}

    def expected_exit(self):
        if self.listed or any(info['state'] == STOPPING for info in self.last.values()) or not self.last:
            return None  # not constrained by the statement
        return max(self.last.values(), key=lambda x: x['recv'])['expected']


def payload(rng, state, now, now_mono, expected):
    start = now - rng.randint(0, 100) if state not in (STOPPED,) or rng.random() < 0.5 else 0
    return {'name': 'proc', 'group': 'app', 'state': state, 'statename': str(state), 'start': start,
            'stop': 0 if state in (STARTING, RUNNING, BACKOFF, STOPPING) else now - 1, 'now': now, 'pid': 1234,
            'description': 'desc', 'spawnerr': '', 'expected': expected, 'start_monotonic': now_mono - 5.0,
            'stop_monotonic': 0.0, 'now_monotonic': now_mono, 'extra_args': '', 'startsecs': 1, 'stopwaitsecs': 2,
            'process_index': 0, 'program_name': 'proc', 'disabled': False, 'has_stdout': False, 'has_stderr': False}


def plan(tier, seed):
    return [{'seed': seed * 7919 + i, 'histories': HISTORIES[tier]} for i in range(CASES[tier])]


def run_case(case):
    from supvisors.process import ProcessStatus, ProcessRules
    rng = random.Random(case['seed'])
    single = Single(n=4, seed=case['seed'])
    counters = {'operations': 0, 'histories': 0, 'conflict_comparisons': 0, 'forced_comparisons': 0,
                'dismissed_forced': 0, 'loss_comparisons': 0, 'undetermined_synced': 0, 'removals': 0}
    violations = []
    reached = set()
    nontrivial = 0
    sample = None
    try:
        sv = single.supvisors
        with single.ctx():
            for h in range(case['histories']):
                n_inst = rng.randint(1, 4)
                idents = single.identifiers[:n_inst]
                proc = ProcessStatus('app', 'proc', ProcessRules(sv), sv)
                model = Model()
                history = []
                interesting = False
                remote_clock = {i: rng.uniform(100.0, 5000.0) for i in idents}
                length = rng.randint(3, 30)
                for step in range(length):
                    single.advance(rng.uniform(0.01, 3.0))
                    for i in idents:
                        remote_clock[i] += rng.uniform(0.0, 3.0)
                    known = [i for i in idents if i in model.last]
                    ops = ['add'] * (3 if len(known) < n_inst else 1)
                    if known:
                        ops += ['event'] * 8 + ['force'] * 2 + ['lose'] + ['remove']
                    else:
                        ops += ['force_unknown']
                    op = rng.choice(ops)
                    try:
                        if op == 'add':
                            ident = rng.choice(idents)
                            state = rng.choice(STATES)
                            expected = rng.random() < 0.5 if state == EXITED else state not in (FATAL,)
                            mono = remote_clock[ident]
                            history.append(('add_info', ident, state, expected, round(mono, 3)))
                            proc.add_info(ident, payload(rng, state, 1.7e9 + mono, mono, expected))
                            forced_before = model.forced
                            model.snapshot(ident, state, expected, mono)
                            if forced_before is not None:
                                # under-determined by the statement (a snapshot is not an event): follow the code
                                model.forced = proc.forced_state
                                counters['undetermined_synced'] += 1
                        elif op == 'event':
                            ident = rng.choice(known)
                            state = rng.choice(STATES)
                            expected = rng.random() < 0.5 if state == EXITED else state not in (FATAL,)
                            # events may also carry an older timestamp than the previous one (reordering)
                            mono = remote_clock[ident] - (rng.uniform(0, 10) if rng.random() < 0.1 else 0.0)
                            history.append(('update_info', ident, state, expected, round(mono, 3)))
                            proc.update_info(ident, {'state': state, 'now': 1.7e9 + mono, 'now_monotonic': mono,
                                                     'pid': 4321, 'expected': expected, 'spawnerr': '',
                                                     'extra_args': ''})
                            model.event(ident, state, expected, mono)
                        elif op in ('force', 'force_unknown'):
                            target = rng.choice(idents + ['', '10.9.9.9:60001']) if op == 'force' else \
                                rng.choice(['', '10.9.9.9:60001'])
                            state = rng.choice([FATAL, STOPPED])
                            info = model.last.get(target)
                            if info is not None:
                                mono = info['time'] + rng.choice([-5.0, -0.001, 0.0, 0.001, 5.0])
                            else:
                                mono = rng.uniform(0.0, 6000.0)
                            history.append(('force_state', target, state, round(mono, 3)))
                            applied = proc.force_state({'identifier': target, 'state': state, 'now_monotonic': mono,
                                                        'spawnerr': 'given up', 'forced': True})
                            verdict = model.force(target, state, mono)
                            if verdict is None:
                                counters['undetermined_synced'] += 1
                                if applied:
                                    model.forced = state
                            elif bool(applied) != verdict:
                                violations.append({'key': 'C11/forced-arbitration',
                                                   'msg': f'force_state applied={applied} but the specification '
                                                          f'says {verdict}; history={history}'})
                            if verdict is False:
                                counters['dismissed_forced'] += 1
                            interesting = True
                        elif op == 'lose':
                            ident = rng.choice(known)
                            history.append(('invalidate_identifier', ident))
                            forced_before = model.forced
                            proc.invalidate_identifier(ident)
                            if model.lose(ident):
                                counters['loss_comparisons'] += 1
                                interesting = True
                                if forced_before is not None:
                                    model.forced = proc.forced_state
                                    counters['undetermined_synced'] += 1
                        elif op == 'remove':
                            candidates = [i for i in known if model.last[i]['state'] in STOPPED_STATES]
                            if not candidates or len(known) < 2:
                                continue
                            ident = rng.choice(candidates)
                            history.append(('remove_identifier', ident))
                            proc.remove_identifier(ident)
                            model.remove(ident)
                            counters['removals'] += 1
                    except Exception as exc:  # noqa
                        import traceback
                        violations.append({'key': f'C11/exception:{type(exc).__name__}',
                                           'msg': f'{type(exc).__name__} after history={history}: '
                                                  f'{traceback.format_exc()[-800:]}'})
                        break
                    counters['operations'] += 1
                    if not model.last:
                        continue
                    # comparison with the observable status
                    ser = proc.serial()
                    listed = set(ser['identifiers'])
                    acceptable = model.real_state()
                    shown = {model.forced} if model.forced is not None else acceptable
                    problems = []
                    if listed != model.listed:
                        problems.append(f'listed on {sorted(listed)}, specification {sorted(model.listed)}')
                    if proc.conflicting() != (len(model.listed) >= 2):
                        problems.append(f'conflict flag {proc.conflicting()} with {len(model.listed)} listed')
                    if acceptable is not None and proc.state not in acceptable:
                        problems.append(f'state {proc.state}, specification {sorted(acceptable)}')
                    if shown is not None and ser['statecode'] not in shown:
                        problems.append(f'displayed state {ser["statecode"]}, specification {sorted(shown)}')
                    exp = model.expected_exit()
                    if exp is not None and ser['expected_exit'] != exp:
                        problems.append(f'expected_exit {ser["expected_exit"]}, specification {exp}')
                    if len(model.listed) >= 2:
                        counters['conflict_comparisons'] += 1
                        interesting = True
                    if model.forced is not None:
                        counters['forced_comparisons'] += 1
                    reached.add((tuple(sorted((i[-1], info['state']) for i, info in model.last.items())),
                                 tuple(sorted(i[-1] for i in model.listed)), model.forced))
                    if problems:
                        kind = problems[0].split(',')[0].split(' ')[0]
                        violations.append({'key': f'C11/mismatch:{kind}',
                                           'msg': '; '.join(problems) + f' after history={history}'})
                        break
                counters['histories'] += 1
                if interesting:
                    nontrivial += 1
                if sample is None and interesting and len(history) > 6:
                    sample = history
                if len(violations) > 5:
                    break
    finally:
        single.close()
    counters['distinct_status_tuples'] = len(reached)
    counters['nontrivial_histories'] = nontrivial
    return {'violations': violations[:5], 'counters': counters, 'signature': f"{case['seed']}:{len(reached)}",
            'sample': sample, 'reached': len(reached)}


def coverage_extra(results):
    return {'explanation': 'distinct_nontrivial counts the cases (batches of histories) that reached a conflict, a '
                           'forced state or an instance loss; counters.distinct_status_tuples sums, per batch, the '
                           'distinct (state vector, listed set, forced) tuples compared'}
