""" C17 - XML-RPC commands are gated by the Supvisors state and fail cleanly. """
from workloads.gates import Run, STATES

PROPERTY = 'C17'
LEVEL = 'exploration'
RULE = ('generated clusters (2-3 instances, applications managed and not) driven through OFF, SYNCHRONIZATION (held '
        'with the USER option), ELECTION, DISTRIBUTION (slow starts), OPERATION, CONCILIATION (duplicate kept by the '
        'USER strategy), RESTARTING / SHUTTING_DOWN (slow stops) and FINAL by a real history, while every public '
        'XML-RPC of the supvisors namespace is called on random instances (Master and not) with valid parameters and '
        'with one invalid parameter (unknown application / process / instance / program, unknown strategy as name or '
        'value, unmanaged application); oracle: gate table written from the statement (Appendix A of DESIGN.md) '
        'against the state the instance reports just before the call - BAD_SUPVISORS_STATE outside the gate, never '
        'inside, BAD_NAME / INCORRECT_PARAMETERS / NOT_MANAGED as stated, and every rejected call leaves the full '
        'status snapshot unchanged and emits no start / stop / restart / shutdown request nor state publication; '
        'non-trivial = probes in at least four states; distinct = distinct (size, synchro options, states reached, '
        'number of (state, method, role) cells) tuples')
ASSUMPTIONS = ['end_sync in SYNCHRONIZATION without the USER option may answer NOT_APPLICABLE (documented in its '
               'docstring) instead of BAD_SUPVISORS_STATE: any rejection without effect is accepted there',
               'restart / shutdown in FINAL: no verdict (the statement says "from DISTRIBUTION on")',
               'update_numprocs is only exercised with an unknown program when it is served']
FLOORS = {'quick': dict({'probes': 20000, 'gate_closed_checks': 6000, 'gate_open_checks': 8000,
                         'parameter_checks': 2000, 'no_effect_checks': 8000, 'cells_covered': 600},
                        **{f'probes_{s}': 150 for s in STATES if s not in ('FINAL', 'OFF')}),
          'thorough': dict({'probes': 400000, 'gate_closed_checks': 120000, 'gate_open_checks': 160000,
                            'parameter_checks': 40000, 'no_effect_checks': 160000, 'cells_covered': 640},
                           **{f'probes_{s}': 3000 for s in STATES if s not in ('FINAL', 'OFF')})}
COUNT = {'quick': 320, 'thorough': 4500}
BUDGET_S = {'quick': 55, 'thorough': 540}
KNOBS = {}


def plan(tier, seed):
    return [{'seed': seed * 1000003 + i} for i in range(COUNT[tier])]


def run_case(case):
    run = Run(case, KNOBS)
    violations = run.execute()
    states = {c[0] for c in run.cells}
    return {'violations': violations, 'counters': run.counters,
            'signature': run.shape() if len(states) >= 4 else None, 'sample': run.describe(),
            'cells': sorted('/'.join(c) for c in run.cells)}


def coverage_extra(results):
    cells = set()
    for res in results:
        cells.update(res.get('cells', ()))
    return {'cells_covered': len(cells)}
