""" C07 - failure detection: accuracy, completeness, invalidation, peer state graph.

Online shadow counter per (observer, peer), written from the statement of the property and fed by what the monitor
observes at the boundaries (TICK deliveries on the transport, local TICK / timer entry points, XML-RPC failures, peer
state changes), never by the counters of the code under test. """
import json

from monitors.lib import Monitor
from vsim.cluster import TICK, Fault, peek, vt
from vsim.gen import effective_options

GRAPH = {'STOPPED': ('CHECKING',),
         'CHECKING': ('STOPPED', 'CHECKED', 'FAILED', 'ISOLATED'),
         'CHECKED': ('RUNNING', 'FAILED'),
         'RUNNING': ('FAILED',),
         'FAILED': ('STOPPED', 'ISOLATED'),
         'ISOLATED': ()}
ACTIVE = ('CHECKING', 'CHECKED', 'RUNNING')
WORKING = ('ELECTION', 'DISTRIBUTION', 'OPERATION', 'CONCILIATION')
RUN_CODES = (10, 20, 30)


class FailureDetectionMonitor(Monitor):

    def attach(self, run):
        Monitor.attach(self, run)
        w = run.world
        eff = effective_options(run.scenario['options'])
        self.inactivity_ticks = eff['inactivity_ticks']
        self.auto_fence = eff['auto_fence']
        self.obs = {}      # (nick, inc) -> observer record
        self.tentative = {}
        w.on_hook('instance_state', self.on_instance_state)
        w.on_hook('ctx_local_tick', self.on_local_tick)
        w.on_hook('ctx_timer', self.before_ctx_timer)
        w.on_hook('ctx_timer:after', self.after_ctx_timer)
        w.on_hook('ctx_instance_failure', self.before_failure)
        w.on_hook('ctx_instance_failure:after', self.after_failure)
        w.on_hook('fsm_timer', self.before_fsm_timer)
        w.on_hook('fsm_timer:after', self.after_fsm_timer)
        w.listeners.append(self.on_event)

    # -- records --------------------------------------------------------------------------------------
    def observer(self, inst):
        key = (inst.nick, inst.inc)
        rec = self.obs.get(key)
        if rec is None:
            rec = self.obs[key] = {'counter': None, 'peers': {}, 'in_timer': None, 'in_failure': None,
                                   'before': None, 'timer_index': 0}
        return rec

    def peer(self, orec, identifier):
        prec = orec['peers'].get(identifier)
        if prec is None:
            prec = orec['peers'][identifier] = {'state': 'STOPPED', 'episode': 0, 'episode_t': None, 'r_last': None,
                                                'inc': None, 'fails': [], 'failed_at_timer': None, 'history': []}
        return prec

    def restarted(self, prec, identifier):
        w = self.run.world
        nick = w.by_identifier.get(identifier)
        return prec['inc'] is not None and w.incs.get(nick, 0) != prec['inc']

    def late(self, orec, prec, counter):
        return prec['r_last'] is not None and counter is not None and \
            counter - prec['r_last'] > self.inactivity_ticks

    # -- transport ------------------------------------------------------------------------------------
    def on_event(self, ev):
        kind = ev['k']
        if kind in ('rpc_fail', 'rpc_fault', 'rpc_block') and ev['id'] in self.tentative:
            # the TICK has not been delivered after all
            prec, previous, restart_set, previous_counter = self.tentative.pop(ev['id'])
            prec['r_last'] = previous
            prec['last_counter'] = previous_counter
            if restart_set:
                prec['restart_seen'] = None
                self.count('quick_restarts_seen', -1)
            self.count('ticks_delivered', -1)
        elif kind == 'rpc_ret':
            self.tentative.pop(ev['id'], None)
        if kind == 'rpc_call' and ev['method'] == 'supervisor.sendRemoteCommEvent' and ev['src'] != 'user':
            # NOTE: the request is served (and the rest of the loop iteration of the callee is run) before the
            #       return event: the delivery is recorded at the call and undone if the call fails
            payload = ev['args'][1]
            if '"sequence_counter"' not in payload or '"when_monotonic"' not in payload:
                return
            w = self.run.world
            dst = w.instances.get(ev['dst'])
            src = w.instances.get(ev['src'])
            if dst is None or src is None or not dst.alive or ev['src'] == ev['dst']:
                return
            try:
                origin, (header, body) = json.loads(payload)
            except (ValueError, TypeError):
                return
            if not isinstance(body, dict) or set(body) != {'when', 'when_monotonic', 'sequence_counter'}:
                return
            orec = self.observer(dst)
            # a TICK is only taken into account once the local instance has received its own first TICK
            if self.peer(orec, dst.identifier)['state'] not in ('CHECKED', 'RUNNING'):
                self.count('ticks_before_local_tick')
                return
            prec = self.peer(orec, src.identifier)
            restart_set = prec['state'] in ACTIVE and prec['inc'] is not None and prec['inc'] != src.inc and \
                prec.get('restart_seen') is None
            self.tentative[ev['id']] = (prec, prec['r_last'], restart_set, prec.get('last_counter'))
            prec['r_last'] = orec['counter']
            self.count('ticks_delivered')
            if restart_set:
                # first TICK of a new incarnation of a peer that is still in the episode of the previous one
                prec['restart_seen'] = (orec['counter'], prec['episode'],
                                        body['sequence_counter'], prec.get('last_counter'))
                self.count('quick_restarts_seen')
            prec['last_counter'] = body['sequence_counter']
        if kind == 'rpc_fail' and ev['src'] != 'user':
            w = self.run.world
            src = w.instances.get(ev['src'])
            if src is None or not src.alive or ev['dst'] is None or ev['dst'] == ev['src']:
                return
            orec = self.observer(src)
            dst_identifier = next((i for i, n in w.by_identifier.items() if n == ev['dst']), None)
            prec = self.peer(orec, dst_identifier)
            prec['fails'].append((ev['t'], prec['episode'], prec['state']))
            del prec['fails'][:-6]
            self.count('rpc_failures_seen')

    # -- local tick / timer ---------------------------------------------------------------------------
    def on_local_tick(self, inst, event):
        orec = self.observer(inst)
        orec['counter'] = event['sequence_counter']
        prec = self.peer(orec, inst.identifier)
        prec['r_last'] = event['sequence_counter']

    def before_ctx_timer(self, inst, event):
        orec = self.observer(inst)
        counter = event['sequence_counter']
        orec['in_timer'] = {'counter': counter,
                            'late': {identifier: self.late(orec, prec, counter)
                                     for identifier, prec in orec['peers'].items()},
                            'before': {identifier: prec['state'] for identifier, prec in orec['peers'].items()}}

    def after_ctx_timer(self, inst, event):
        w = self.run.world
        orec = self.observer(inst)
        ctx = orec['in_timer']
        orec['in_timer'] = None
        for identifier, prec in orec['peers'].items():
            if identifier == inst.identifier:
                continue
            before = ctx['before'].get(identifier)
            seen = prec.get('restart_seen')
            if seen is not None:
                if prec['episode'] != seen[1] or prec['state'] not in ACTIVE:
                    prec['restart_seen'] = None     # the episode of the previous incarnation is over
                elif ctx['counter'] is not None and seen[0] is not None and ctx['counter'] - seen[0] >= 2:
                    self.count('quick_restart_evaluations')
                    mech = ''
                    if seen[3] is not None and seen[2] >= seen[3]:
                        # the restart is only detected through a TICK counter going backwards
                        mech = ':first-tick-counter-not-lower-than-the-last-one-of-the-previous-incarnation'
                    self.violate('C07/restarted-peer-not-invalidated' + mech,
                                 f"{inst.nick}: peer {w.by_identifier.get(identifier)} restarted (its first TICK after "
                                 f"the restart was delivered at local tick {seen[0]}) and is still {prec['state']} in "
                                 f"the episode of its previous incarnation after the periodic check of local tick "
                                 f"{ctx['counter']} (vt={vt(w)})", case=self.run.describe())
                    prec['restart_seen'] = None
            if before in ACTIVE:
                self.count('completeness_evaluations')
                if ctx['late'].get(identifier):
                    self.count('silent_peers_at_timer')
                    if prec['state'] in ACTIVE:
                        self.violate('C07/silent-peer-not-failed',
                                     f"{inst.nick}: peer {w.by_identifier.get(identifier)} still {prec['state']} after "
                                     f"the periodic check of local tick {ctx['counter']} although its last tick was "
                                     f"received at local tick {prec['r_last']} (inactivity_ticks="
                                     f'{self.inactivity_ticks}) at vt={vt(w)}', case=self.run.describe())

    def before_failure(self, inst, status):
        self.observer(inst)['in_failure'] = status.identifier

    def after_failure(self, inst, status):
        self.observer(inst)['in_failure'] = None

    # -- peer state changes ---------------------------------------------------------------------------
    def on_instance_state(self, inst, identifier, new_state):
        w = self.run.world
        orec = self.observer(inst)
        prec = self.peer(orec, identifier)
        old, new = prec['state'], new_state.name
        peer_nick = w.by_identifier.get(identifier)
        self.count('peer_state_changes')
        prec['history'].append((vt(w), new))
        del prec['history'][:-8]
        if new not in GRAPH[old]:
            self.violate(f'C07/graph:{old}->{new}', f'{inst.nick}: peer {peer_nick} goes {old} -> {new} at vt={vt(w)} '
                         f"(history {prec['history']})", case=self.run.describe())
        if new == 'ISOLATED' and identifier == inst.identifier:
            self.violate('C07/local-isolated', f'{inst.nick} marks itself ISOLATED at vt={vt(w)}',
                         case=self.run.describe())
        if new == 'CHECKING':
            prec['episode'] += 1
            prec['episode_t'] = w.now
            prec['inc'] = w.incs.get(peer_nick, 0)
            if prec['r_last'] is None:
                prec['r_last'] = orec['counter']
        elif new == 'FAILED':
            self.check_accuracy(inst, orec, prec, identifier, old)
            prec['failed_at_timer'] = orec['timer_index']
        elif old == 'FAILED':
            self.check_fence(inst, identifier, new)
        prec['state'] = new

    def check_accuracy(self, inst, orec, prec, identifier, old):
        w = self.run.world
        peer_nick = w.by_identifier.get(identifier)
        name = 'accuracy_evaluations' if old == 'RUNNING' else 'accuracy_evaluations_not_running'
        self.count(name)
        restarted = self.restarted(prec, identifier)
        if orec['in_timer'] is not None:
            why = 'periodic-check'
            justified = orec['in_timer']['late'].get(identifier) or restarted
        elif orec['in_failure'] == identifier:
            why = 'rpc-failure'
            justified = any(episode == prec['episode'] for _, episode, _ in prec['fails']) or restarted
        else:
            why = 'other-path'
            justified = False
        if justified:
            self.count('failures_justified_' + why)
            return
        if old != 'RUNNING':
            # the statement only protects peers seen RUNNING
            self.count('suspicions_of_peers_not_yet_running')
            return
        self.violate(f'C07/false-suspicion:{why}',
                     f'{inst.nick}: peer {peer_nick} (alive={w.instances[peer_nick].alive}, not restarted since its '
                     f"admission) declared FAILED from RUNNING by the {why} at vt={vt(w)}: local tick "
                     f"{orec['counter']}, last tick of the peer delivered at local tick {prec['r_last']}, "
                     f'inactivity_ticks={self.inactivity_ticks}, XML-RPC failures towards it in this episode: '
                     f"{[f for f in prec['fails'] if f[1] == prec['episode']]}", case=self.run.describe())

    def master_state_seen(self, inst):
        w = self.run.world
        try:
            master = peek(w, inst.nick, 'supvisors.get_master_identifier').get('identifier', '')
            if not master:
                return None
            return peek(w, inst.nick, 'supvisors.get_instance_state_modes', master)[0]['fsm_statename']
        except Fault:
            return None

    def check_fence(self, inst, identifier, new):
        w = self.run.world
        master_state = self.master_state_seen(inst)
        expected = 'ISOLATED' if self.auto_fence and master_state in WORKING and identifier != inst.identifier \
            else 'STOPPED'
        self.count('invalidations')
        self.count('invalidations_' + expected.lower())
        if new != expected:
            self.violate(f'C07/fence:{new}-instead-of-{expected}',
                         f'{inst.nick}: lost peer {w.by_identifier.get(identifier)} goes FAILED -> {new} at '
                         f'vt={vt(w)} with auto_fence={self.auto_fence} and Master state {master_state}',
                         case=self.run.describe())

    # -- whole periodic task --------------------------------------------------------------------------
    def processes(self, inst):
        w = self.run.world
        try:
            return {f"{p['application_name']}:{p['process_name']}": p
                    for p in peek(w, inst.nick, 'supvisors.get_all_process_info')}
        except Fault:
            return None

    def before_fsm_timer(self, inst, event):
        orec = self.observer(inst)
        orec['timer_index'] += 1
        counter = event['sequence_counter']
        concerned = [identifier for identifier, prec in orec['peers'].items()
                     if identifier != inst.identifier and
                     (prec['state'] == 'FAILED' or
                      (prec['state'] in ACTIVE and (self.late(orec, prec, counter) or self.restarted(prec, identifier))))]
        orec['before'] = {'failed': {identifier: prec['episode'] for identifier, prec in orec['peers'].items()
                                     if prec['state'] == 'FAILED'},
                          'states': {identifier: prec['state'] for identifier, prec in orec['peers'].items()},
                          'procs': self.processes(inst) if concerned else None}

    def after_fsm_timer(self, inst, event):
        w = self.run.world
        orec = self.observer(inst)
        before = orec['before']
        orec['before'] = None
        now = w.now
        after_procs = None
        # the API reports the tracked states
        try:
            reported = {info['identifier']: info['statename']
                        for info in peek(w, inst.nick, 'supvisors.get_all_instances_info')}
        except Fault:
            reported = {}
        for identifier, statename in reported.items():
            prec = orec['peers'].get(identifier)
            tracked = prec['state'] if prec else 'STOPPED'
            self.count('status_reports_compared')
            if statename != tracked:
                self.violate('C07/graph:unobserved-change', f'{inst.nick} reports peer {w.by_identifier.get(identifier)} '
                             f'{statename} at vt={vt(w)} but the last state change observed was to {tracked}',
                             case=self.run.describe())
        for identifier, prec in orec['peers'].items():
            if identifier == inst.identifier:
                continue
            peer_nick = w.by_identifier.get(identifier)
            # FAILED does not survive a complete periodic task
            if prec['state'] == 'FAILED' and before['failed'].get(identifier) == prec['episode']:
                self.violate('C07/failed-not-invalidated',
                             f'{inst.nick}: peer {peer_nick} was FAILED before the periodic task of local tick '
                             f"{event['sequence_counter']} and is still FAILED after it (vt={vt(w)}, local state "
                             f'{self.local_fsm_state(inst)})', case=self.run.describe())
            # an XML-RPC failure ends the episode
            if prec['state'] in ACTIVE:
                old_fails = [t for t, episode, _ in prec['fails']
                             if episode == prec['episode'] and t > (prec['episode_t'] or 0) and t <= now - 2 * TICK]
                if old_fails:
                    self.violate('C07/rpc-failure-not-followed-by-failed',
                                 f"{inst.nick}: peer {peer_nick} is still {prec['state']} at vt={vt(w)} although an "
                                 f'XML-RPC towards it failed at vt={round(old_fails[0] - 1_700_000_000.0, 3)} in the '
                                 f'same episode', case=self.run.describe())
                if prec['fails']:
                    self.count('rpc_failure_followups')
            # invalidation: processes
            was = before['states'].get(identifier)
            if prec['state'] in ('STOPPED', 'ISOLATED') and was in ACTIVE + ('FAILED',):
                if after_procs is None:
                    after_procs = self.processes(inst) or {}
                self.count('invalidations_checked')
                for namespec, p in after_procs.items():
                    self.count('process_entries_checked')
                    if identifier in p['identifiers']:
                        self.violate('C07/process-still-listed-on-lost-peer',
                                     f'{inst.nick}: {namespec} still lists the lost peer {peer_nick} '
                                     f"({prec['state']}) in {p['identifiers']} at vt={vt(w)}",
                                     case=self.run.describe())
                if before['procs'] is None:
                    self.count('invalidations_without_process_snapshot')
                    continue
                for namespec, p in before['procs'].items():
                    if p['identifiers'] == [identifier] and p['statecode'] in RUN_CODES + (40,):
                        q = after_procs.get(namespec)
                        self.count('lost_processes_checked')
                        if q is not None and q['statecode'] != 200:
                            self.violate('C07/lost-process-not-fatal',
                                         f"{inst.nick}: {namespec} was {p['statename']} on the lost peer {peer_nick} "
                                         f"only and is reported {q['statename']} on {q['identifiers']} after the "
                                         f'invalidation at vt={vt(w)}', case=self.run.describe())

    def local_fsm_state(self, inst):
        try:
            return peek(self.run.world, inst.nick, 'supvisors.get_supvisors_state')['fsm_statename']
        except Fault:
            return None
