""" C09 - stop sequences are honoured; restart / shutdown is orderly and reaches everyone. """
from monitors.lib_apps import Tracker, StopSequenceMonitor
from workloads.apps import Run

PROPERTY = 'C09'
LEVEL = 'exploration'
RULE = ('generated rules (stop_sequence at both levels, defaults inherited from start_sequence, unmanaged '
        'applications), placements and stop behaviours (prompt, slow, ignoring SIGTERM, never stopping); application '
        'stops from user requests, restart_application, STOP strategies and, in 60% of the runs, a final '
        'supvisors.restart / shutdown requested on a random instance with the optional loss of a non-Master during '
        'the closing phase; oracle at EVERY stop request emission against the true process states (order inside an '
        'application-level stop plan, order between applications in the closing plan, target running in the '
        'requester view), same-sequence processes in one dispatch, exactly one supervisor.restart / shutdown per '
        'instance and only after the Master stop jobs ended, FINAL everywhere; non-trivial = run with a sequenced '
        'stop plan of at least two levels or a closing phase; distinct = distinct (topology, strategies, '
        'distributions, actions, closing) tuples')
ASSUMPTIONS = ['the order clause is evaluated in application-level stop plans only (entry points of the Stopper '
               'observed by hooks) and for the processes that were running when the plan was built']
FLOORS = {'quick': {'stop_emissions': 1500, 'sequenced_stop_emissions': 800, 'order_comparisons': 150,
                    'closing_runs': 100, 'exactly_once_checks': 250, 'order_timing_checks': 250,
                    'hosts_of_a_copy_lost_while_its_application_is_stopped': 50},
          'thorough': {'stop_emissions': 40000, 'sequenced_stop_emissions': 20000, 'order_comparisons': 4000,
                       'closing_runs': 2500, 'exactly_once_checks': 6000, 'order_timing_checks': 6000,
                       'hosts_of_a_copy_lost_while_its_application_is_stopped': 900}}
COUNT = {'quick': 800, 'thorough': 16000}
BUDGET_S = {'quick': 55, 'thorough': 540}

KNOBS = {'stagger': [0.0, 1.0, 4.0, 30.0, 60.0], 'n_min': 1, 'n_max': 4,
         'apps': {'n_apps': (1, 3), 'n_progs': (2, 4), 'seq_max': 3, 'startsecs': (0, 3), 'stopwaitsecs': (1, 8),
                  'per_instance_diff': 0.05, 'managed_p': 0.85, 'autorestart': ('false',)},
         'behaviours': ['normal'] * 5 + ['slow_stop', 'slow_stop', 'stubborn', 'immortal'],
         'actions': ['stop_application', 'stop_application', 'restart_application', 'stop_process', 'start_application',
                     'restart_process', 'kill_process', 'wait'],
         'n_actions': [0, 1, 2, 3, 4], 'closing_p': 0.6, 'second_closing_p': 0.3, 'fence': 'false'}


# an additional family: processes that never stop (or only when killed after a long stopwaitsecs) are asked to stop, an
# instance is restarted meanwhile (ELECTION: the stop jobs in progress are aborted) and Supvisors is then restarted /
# shut down while they are still STOPPING - the closing plan has to wait for them too
STUCK_KNOBS = {'stagger': [0.0, 1.0], 'n_min': 2, 'n_max': 4,
               'apps': {'n_apps': (2, 3), 'n_progs': (1, 3), 'seq_max': 3, 'startsecs': (0, 2), 'stopwaitsecs': (20, 60),
                        'per_instance_diff': 0.0, 'managed_p': 1.0, 'autorestart': ('false',)},
               'behaviours': ['immortal', 'immortal', 'stubborn', 'normal'],
               'actions': ['stop_application', 'stop_application', 'restart', 'stop_process'],
               'n_actions': [2, 3, 4], 'gaps': [2.0, 5.0, 12.0], 'closing_p': 1.0, 'second_closing_p': 0.3,
               'fence': 'false', 'early_p': 0.0,
               'settle_ticks': 30, 'closing_ticks': 300}
STUCK_COUNT = {'quick': 240, 'thorough': 4000}


# and a family where a process that runs on two instances (conflict left to the user) is being stopped with its
# application, both copies slow to stop, when one of the two hosts is lost: the other copy is still to be waited for
DUP_KNOBS = {'stagger': [0.0, 1.0], 'n_min': 3, 'n_max': 4,
             'apps': {'n_apps': (1, 2), 'n_progs': (2, 4), 'seq_max': 3, 'startsecs': (0, 2), 'stopwaitsecs': (10, 25),
                      'per_instance_diff': 0.0, 'managed_p': 1.0, 'autorestart': ('false',)},
             'behaviours': ['stubborn', 'stubborn', 'slow_stop'], 'options': {'conciliation_strategy': 'USER'},
             'actions': ['stop_duplicated_then_crash'], 'n_actions': [1], 'gaps': [30.0], 'closing_p': 0.0,
             'fence': 'false', 'early_p': 0.0, 'dup_managed_only': True, 'settle_ticks': 40}
DUP_COUNT = {'quick': 160, 'thorough': 3000}


# the general family again with slow handshakes (each XML-RPC of a handshake takes 0 - 3 s, L3 engine) and instance
# restarts: requests are emitted and answered while peers are being checked again
SLOW_KNOBS = dict(KNOBS, handshake_skew=[0.0, 0.3, 1.0, 2.0, 3.0], actions=KNOBS['actions'] + ['restart', 'restart'])


# and a family where supvisors.restart / shutdown arrives while a restart_application (stop then start again) or a start
# is still being carried out
BUSY_KNOBS = {'stagger': [0.0, 1.0], 'n_min': 2, 'n_max': 4,
              'apps': {'n_apps': (1, 3), 'n_progs': (1, 3), 'seq_max': 3, 'startsecs': (1, 5), 'stopwaitsecs': (3, 10),
                       'per_instance_diff': 0.0, 'managed_p': 1.0, 'autorestart': ('false',)},
              'behaviours': ['normal', 'slow_stop', 'slow_stop', 'stubborn'],
              'actions': ['restart_application', 'restart_application', 'restart_process', 'start_application'],
              'n_actions': [1, 2], 'gaps': [0.0, 0.3], 'closing_p': 1.0, 'closing_at_once': [0.05, 0.5, 1.5, 3.0],
              'second_closing_p': 0.0, 'closing_crash_p': 0.0, 'fence': 'false', 'early_p': 0.0, 'closing_ticks': 120,
              # the requests go to the Master: what ANOTHER instance is still doing between the instant the Master builds
              # its closing plan and the instant that instance learns of it cannot be in that plan (a process it starts
              # again meanwhile is out of the Master's sight: thorough seed 9, judged a limit of the oracle, not a defect)
              'on_master_p': 1.0}
BUSY_COUNT = {'quick': 120, 'thorough': 3000}


def plan(tier, seed):
    return [{'seed': seed * 1000003 + i} for i in range(COUNT[tier])] + \
        [{'seed': seed * 1000003 + 700000 + i, 'family': 'stuck-stopping'} for i in range(STUCK_COUNT[tier])] + \
        [{'seed': seed * 1000003 + 600000 + i, 'family': 'duplicated-copy-lost-while-stopping'}
         for i in range(DUP_COUNT[tier])] + \
        [{'seed': seed * 1000003 + 900000 + i, 'family': 'slow-handshake'} for i in range(COUNT[tier] // 8)] + \
        [{'seed': seed * 1000003 + 500000 + i, 'family': 'closing-while-busy'} for i in range(BUSY_COUNT[tier])]


def run_case(case):
    tracker = Tracker()
    mon = StopSequenceMonitor(tracker)
    run = Run(case, {'stuck-stopping': STUCK_KNOBS, 'duplicated-copy-lost-while-stopping': DUP_KNOBS, 'slow-handshake': SLOW_KNOBS,
                     'closing-while-busy': BUSY_KNOBS}.get(
        case.get('family'), KNOBS), [tracker, mon])
    violations = run.execute()
    nontrivial = mon.counters.get('order_comparisons', 0) > 0 or mon.counters.get('closing_runs', 0) > 0
    return {'violations': violations, 'counters': run.counters,
            'signature': (run.shape() + '|' + str(run.closing and run.closing['kind'])) if nontrivial else None,
            'sample': run.describe()}
