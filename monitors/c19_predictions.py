""" C19 - start predictions are side-effect free and match a real start. """
from monitors.lib_apps import Tracker
from workloads.predict import Run

PROPERTY = 'C19'
LEVEL = 'exploration'
RULE = ('generated clusters (2-4 instances on 1-3 nodes) with generated managed applications (distributions, '
        'identifiers rules, loads, start sequences, starting strategies) brought to OPERATION at rest by a real '
        'history, then an application or some processes are stopped; purity: full status snapshot of every instance '
        '(all status XML-RPCs including the per-instance process information, queued messages, deferred calls) before '
        '/ after 1-5 predictions asked on a random instance with a random strategy: identical, and no request / '
        'publication / forced state emitted; accuracy: the real start_application / start_process is then requested '
        'on the same instance with the same strategy, every process starting normally, and the targets of its start '
        'requests are compared with the predicted running_identifiers, process by process; non-trivial = at least '
        'one prediction compared with a real start; distinct = distinct (topology, strategies, distributions) tuples')
ASSUMPTIONS = ['the real start is issued in the same run right after the predictions (the situation is the same if the '
               'predictions are pure); processes whose real start failed or was retried are not compared']
FLOORS = {'quick': {'purity_checks': 300, 'purity_checks_with_prediction': 200, 'accuracy_rounds': 200,
                    'process_predictions_compared': 500},
          'thorough': {'purity_checks': 8000, 'purity_checks_with_prediction': 5000, 'accuracy_rounds': 5000,
                       'process_predictions_compared': 12000}}
COUNT = {'quick': 320, 'thorough': 8000}
BUDGET_S = {'quick': 55, 'thorough': 540}

KNOBS = {'n_min': 2, 'n_max': 4,
         'apps': {'n_apps': (1, 3), 'n_progs': (1, 4), 'seq_max': 2, 'startsecs': (0, 2), 'managed_p': 1.0,
                  'autorestart': ('false',), 'loads': (0, 45)},
         'behaviours': ['normal'], 'fence': 'false', 'n_rounds': [1, 2, 3]}


# a second family: applications with wait_exit programs (they exit as expected a few seconds after RUNNING), three
# sequence levels, loads that matter
WAIT_KNOBS = {'n_min': 2, 'n_max': 3,
              'apps': {'n_apps': (1, 2), 'n_progs': (3, 5), 'seq_max': 3, 'startsecs': (0, 2), 'managed_p': 1.0,
                       'autorestart': ('false',), 'loads': (5, 30), 'allow_wait_exit': True, 'wait_exit_p': 0.35, 'identifiers_p': 0.1},
              'behaviours': ['normal'], 'wait_exit_behaviours': ['exit_expected'], 'same_behaviour_everywhere': True,
              'strategies': ['LESS_LOADED', 'LESS_LOADED', 'MOST_LOADED', 'LESS_LOADED_NODE', 'MOST_LOADED_NODE', 'CONFIG'],
              'fence': 'false', 'n_rounds': [1, 2]}


def plan(tier, seed):
    return [{'seed': seed * 1000003 + i} for i in range(COUNT[tier])] + \
        [{'seed': seed * 1000003 + 700000 + i, 'family': 'wait-exit'} for i in range(COUNT[tier])]


def run_case(case):
    tracker = Tracker()
    run = Run(case, WAIT_KNOBS if case.get('family') == 'wait-exit' else KNOBS, [tracker])
    violations = run.execute()
    nontrivial = run.counters.get('process_predictions_compared', 0) > 0
    return {'violations': violations, 'counters': run.counters,
            'signature': run.shape() if nontrivial else None, 'sample': run.describe()}
