""" Monitors for the application workload: request tracker (shared), C03, C04, C09, C10, C12. """
from supervisor.states import ProcessStates, RUNNING_STATES, STOPPED_STATES

from monitors.lib import Monitor
from vsim.cluster import peek, vt, ident, views, groups, Fault, TICK
from vsim.gen import effective_options

RUN_CODES = (10, 20, 30)


class Tracker(Monitor):
    """ Shadows, from the hooks and the truth stream: every start / stop request (emission, delivery, resolution),
    the forced states published, the Supvisors state of every sender, the true state of every process. """

    def attach(self, run):
        Monitor.attach(self, run)
        w = run.world
        self.w = w
        self.truth = {}            # (nick, namespec) -> current state
        self.ever_started = set()  # namespecs that have truly been started somewhere
        self.requests = []         # start requests
        self.stops = []            # stop requests
        self.open_starts = []      # unresolved ones
        self.open_stops = []
        self.sender_state = {}     # (nick, inc) -> fsm state name
        self.visit = {}            # (nick, inc) -> counter incremented on every state change
        self.forced = []           # forced states published
        self.listeners_start = []  # callbacks(request) at emission, before the request is recorded
        self.listeners_stop = []
        self.listeners_forced = []
        self.listeners_resolved = []
        self.dispatch = 0
        w.listeners.append(self.on_event)
        w.on_hook('send_start_process', self.on_start)
        w.on_hook('send_stop_process', self.on_stop)
        w.on_hook('send_state_event', self.on_state)
        w.on_hook('force_process_state', self.on_forced)
        w.on_hook('instance_state', self.on_instance_state)
        self.epoch = {}            # (nick, inc, app) -> plan counter (entry points of the Starter)
        w.on_hook('starter_start_applications', lambda inst, *a, **k: self.bump(inst, None))
        w.on_hook('starter_start_application',
                  lambda inst, strategy, application, *a, **k: self.bump(inst, application.application_name))
        w.on_hook('starter_start_process',
                  lambda inst, strategy, process, *a, **k: self.bump(inst, process.application_name))

    # -- senders ------------------------------------------------------------------------------------
    def on_state(self, inst, payload):
        key = (inst.nick, inst.inc)
        state = payload['fsm_statename']
        if self.sender_state.get(key) != state:
            old = self.sender_state.get(key)
            self.sender_state[key] = state
            self.visit[key] = self.visit.get(key, 0) + 1
            if state in ('OFF', 'SYNCHRONIZATION', 'ELECTION', 'RESTARTING', 'SHUTTING_DOWN', 'FINAL'):
                # entering these states aborts every job of the instance
                for req in self.open_starts + self.open_stops:
                    if req['sender'] == inst.nick and req['inc'] == inst.inc and not req['resolved']:
                        self.resolve(req, 'sender-aborted')

    def bump(self, inst, app_name):
        """ A new start plan begins for the application(s) at this instance. """
        apps = [app_name] if app_name else list(self.run.model)
        for app in apps:
            key = (inst.nick, inst.inc, app)
            self.epoch[key] = self.epoch.get(key, 0) + 1
        self.count('start_plans')

    def epoch_of(self, inst_nick, inc, app):
        return self.epoch.get((inst_nick, inc, app), 0)

    def state_of(self, inst):
        return self.sender_state.get((inst.nick, inst.inc), 'OFF')

    def on_instance_state(self, inst, identifier, new_state):
        if new_state.name in ('FAILED', 'STOPPED', 'ISOLATED'):
            for req in self.open_starts + self.open_stops:
                if req['sender'] == inst.nick and req['inc'] == inst.inc and req['target'] == identifier \
                        and not req['resolved']:
                    self.resolve(req, 'target-lost')

    # -- requests -----------------------------------------------------------------------------------
    def on_start(self, inst, identifier, namespec, extra_args):
        w = self.w
        req = {'kind': 'start', 'sender': inst.nick, 'inc': inst.inc, 'target': identifier,
               'target_nick': w.by_identifier.get(identifier), 'namespec': namespec, 't': w.now, 'step': w.steps,
               'resolved': None, 'delivered': None, 'sender_state': self.state_of(inst),
               'visit': self.visit.get((inst.nick, inst.inc), 0), 'started': False,
               'epoch': self.epoch_of(inst.nick, inst.inc, namespec.split(':')[0])}
        for cb in self.listeners_start:
            cb(inst, req)
        self.requests.append(req)
        self.open_starts.append(req)
        self.count('start_requests')

    def on_stop(self, inst, identifier, namespec):
        w = self.w
        req = {'kind': 'stop', 'sender': inst.nick, 'inc': inst.inc, 'target': identifier,
               'target_nick': w.by_identifier.get(identifier), 'namespec': namespec, 't': w.now, 'step': w.steps,
               'resolved': None, 'delivered': None, 'sender_state': self.state_of(inst),
               'visit': self.visit.get((inst.nick, inst.inc), 0)}
        for cb in self.listeners_stop:
            cb(inst, req)
        self.stops.append(req)
        self.open_stops.append(req)
        self.count('stop_requests')

    def on_forced(self, inst, process, identifier, event_time, forced_state, reason):
        rec = {'sender': inst.nick, 'inc': inst.inc, 'namespec': process.namespec, 'target': identifier,
               'state': int(forced_state), 'reason': reason, 't': self.w.now,
               'visit': self.visit.get((inst.nick, inst.inc), 0), 'sender_state': self.state_of(inst),
               'epoch': self.epoch_of(inst.nick, inst.inc, process.application_name)}
        for cb in self.listeners_forced:
            cb(inst, rec)
        self.forced.append(rec)
        self.count('forced_states')
        for req in self.open_starts + self.open_stops:
            if req['sender'] == inst.nick and req['inc'] == inst.inc and req['namespec'] == process.namespec \
                    and not req['resolved'] and (not identifier or req['target'] == identifier):
                self.resolve(req, 'given-up')

    def resolve(self, req, how):
        req['resolved'] = how
        req['resolved_t'] = self.w.now
        pool = self.open_starts if req['kind'] == 'start' else self.open_stops
        if req in pool:
            pool.remove(req)
        for cb in self.listeners_resolved:
            cb(req, how)

    def outstanding(self, sender, inc, kind='start'):
        pool = self.open_starts if kind == 'start' else self.open_stops
        return [r for r in pool if r['sender'] == sender and r['inc'] == inc and not r['resolved']]

    # -- truth / transport events -------------------------------------------------------------------
    def on_event(self, ev):
        kind = ev['k']
        if kind == 'truth':
            key = (ev['inst'], ev['namespec'])
            state = ev['state']
            self.truth[key] = state
            if state in RUN_CODES:
                self.ever_started.add(ev['namespec'])
            run = self.run
            for req in list(self.open_starts):
                if req['resolved'] or req['target_nick'] != ev['inst'] or req['namespec'] != ev['namespec']:
                    continue
                if state == ProcessStates.STARTING:
                    req['started'] = True
                elif state == ProcessStates.RUNNING:
                    wait_exit = run.prog_of(req['namespec'])[1].get('wait_exit')
                    if wait_exit and req['sender_state'] == 'DISTRIBUTION':
                        req['running'] = True
                    else:
                        self.resolve(req, 'running')
                elif state == ProcessStates.EXITED:
                    self.resolve(req, 'exited-expected' if ev.get('expected') else 'exited-unexpected')
                elif state in (ProcessStates.FATAL, ProcessStates.STOPPED, ProcessStates.UNKNOWN,
                               ProcessStates.STOPPING):
                    if req['started'] or req['delivered']:
                        self.resolve(req, 'failed')
            for req in list(self.open_stops):
                if req['resolved'] or req['target_nick'] != ev['inst'] or req['namespec'] != ev['namespec']:
                    continue
                if state in STOPPED_STATES:
                    self.resolve(req, 'stopped')
        elif kind in ('rpc_call', 'rpc_ret', 'rpc_fault', 'rpc_fail', 'rpc_drop'):
            method = ev['method']
            if method == 'supvisors.start_args' or method == 'supervisor.stopProcess':
                pool = self.open_starts if method == 'supvisors.start_args' else self.open_stops
                namespec = ev['args'][0]
                for req in list(pool):
                    if req['sender'] == ev['src'] and req['target_nick'] == ev['dst'] and \
                            req['namespec'] == namespec and req.get('rpc_id') in (None, ev['id']) and \
                            (kind == 'rpc_call') == (req.get('rpc_id') is None):
                        if kind == 'rpc_call':
                            # the state events produced while the request is served belong to it
                            req['rpc_id'] = ev['id']
                            req['delivered'] = 'calling'
                            req['delivered_t'] = self.w.now
                        else:
                            req['delivered'] = kind
                            if kind == 'rpc_fault':
                                req['fault'] = ev.get('code')
                            if kind in ('rpc_fail', 'rpc_drop'):
                                req['delivered'] = None if kind == 'rpc_drop' else kind
                        break
        elif kind == 'crash':
            for req in self.open_starts + self.open_stops:
                if req['target_nick'] == ev['inst'] and not req['resolved']:
                    # the sender does not know yet; it is resolved when the sender invalidates the target
                    req['target_crashed'] = True
                if req['sender'] == ev['inst'] and not req['resolved']:
                    self.resolve(req, 'sender-crashed')

    def truly_running(self, namespec):
        return [nick for (nick, ns), st in self.truth.items() if ns == namespec and st in RUN_CODES
                and self.w.instances[nick].alive]

    def finish(self, run):
        return []


# ---------------------------------------------------------------------------------------------------

class StartSequenceMonitor(Monitor):
    """ C03 (see DESIGN.md 8/C03 and the module docstring of monitors/c03_start_sequence.py). """

    def __init__(self, tracker):
        Monitor.__init__(self)
        self.tracker = tracker
        self.failed_required = {}   # (sender, inc, visit, app) -> (namespec, strategy, t)
        self.plans = set()

    def attach(self, run):
        Monitor.attach(self, run)
        self.tracker.listeners_start.append(self.on_start)
        self.tracker.listeners_forced.append(self.on_forced)
        self.tracker.listeners_resolved.append(self.on_resolved)
        run.world.listeners.append(self.on_event)

    def on_resolved(self, req, how):
        # the host of a starting process is lost: the start is given up, which is a failure of the process
        if req['kind'] == 'start' and how == 'target-lost':
            self.count('starts_given_up_on_host_loss')
            self.note_failure(req['sender'], req['inc'], req['epoch'], req['namespec'], self.run.world.steps)
        elif req['kind'] == 'start' and how in ('failed', 'exited-unexpected'):
            # the requester learns it when the event is delivered; no request of the same application can be
            # emitted in between (the failed command is still in its current jobs)
            self.note_failure(req['sender'], req['inc'], req['epoch'], req['namespec'], -1)

    def seqs(self, namespec):
        app, prog = self.run.prog_of(namespec)
        return app.get('start_sequence', 0), prog.get('start_sequence', 0)

    def on_start(self, inst, req):
        run, tr = self.run, self.tracker
        namespec = req['namespec']
        app_name = namespec.split(':')[0]
        app_seq, seq = self.seqs(namespec)
        app, prog = run.prog_of(namespec)
        automatic = req['sender_state'] == 'DISTRIBUTION'
        self.count('start_emissions')
        self.plans.add((req['sender'], req['inc'], req['epoch'], app_name))
        outstanding = tr.outstanding(req['sender'], req['inc'])
        # 1. processes of the same application with a lower positive sequence are done or given up
        if seq > 0:
            for other in outstanding:
                if other['namespec'].split(':')[0] == app_name and other['step'] != req['step']:
                    oseq = self.seqs(other['namespec'])[1]
                    if tr.truth.get((other['target_nick'], other['namespec'])) == ProcessStates.RUNNING \
                            and not other.get('running'):
                        continue  # started there by somebody else: nothing left to wait for
                    if 0 < oseq < seq:
                        self.count('nontrivial_order_checks')
                        self.violate('C03/process-order', f"{req['sender']} requested {namespec} (start_sequence {seq})"
                                     f" at vt={vt(run.world)} while its request for {other['namespec']} (start_sequence"
                                     f" {oseq}) on {other['target_nick']} is not finished: true state there "
                                     f"{tr.truth.get((other['target_nick'], other['namespec']))}, delivered="
                                     f"{other['delivered']}", case=run.describe())
            self.count('process_order_checks')
        # 2. applications with a lower positive sequence are done
        if app_seq > 0:
            for other in outstanding:
                oapp = other['namespec'].split(':')[0]
                if oapp != app_name:
                    oapp_seq = self.seqs(other['namespec'])[0]
                    if 0 < oapp_seq < app_seq:
                        self.violate('C03/application-order', f"{req['sender']} requested {namespec} (application "
                                     f"start_sequence {app_seq}) at vt={vt(run.world)} while its request for "
                                     f"{other['namespec']} (application start_sequence {oapp_seq}) is not finished",
                                     case=run.describe())
            self.count('application_order_checks')
        if automatic:
            self.count('automatic_emissions')
            # 3. sequence 0 is never started automatically
            if (app_seq == 0 or seq == 0) and namespec not in tr.ever_started:
                self.violate('C03/sequence-0-started', f"{req['sender']} in DISTRIBUTION requested {namespec} whose "
                             f"start_sequence is application={app_seq} process={seq} and which never ran",
                             case=run.describe())
            # 5. no process of a lower sequence has been skipped
            if seq > 0:
                for other_ns, (oapp, oprog) in run.procs.items():
                    if oapp != app_name or other_ns == namespec:
                        continue
                    oseq = run.model[oapp]['programs'][oprog].get('start_sequence', 0)
                    if not 0 < oseq < seq:
                        continue
                    known = any(oprog in i.spec['groups'].get(oapp, {}) for i in run.world.live())
                    if not known:
                        continue  # no Supervisor knows it: it does not exist for Supvisors
                    self.count('skip_checks')
                    if other_ns in tr.ever_started:
                        continue
                    requested = any(r['namespec'] == other_ns and r['sender'] == req['sender'] and
                                    r['inc'] == req['inc'] and r['epoch'] == req['epoch'] for r in tr.requests)
                    forced = any(f['namespec'] == other_ns and f['sender'] == req['sender'] and
                                 f['inc'] == req['inc'] and f['epoch'] == req['epoch'] for f in tr.forced)
                    if not requested and not forced:
                        self.violate('C03/process-skipped', f"{req['sender']} in DISTRIBUTION requested {namespec} "
                                     f"(start_sequence {seq}) although {other_ns} (start_sequence {oseq}) was never "
                                     f"started, never requested and never given up", case=run.describe())
        # 4. starting failure strategy
        key = (req['sender'], req['inc'], req['epoch'], app_name)
        failure = self.failed_required.get(key)
        if failure:
            fns, strategy, t, step = failure
            self.count('failure_strategy_checks')
            if strategy in ('ABORT', 'STOP') and step != req['step']:
                self.violate(f'C03/request-after-{strategy}', f"{req['sender']} requested {namespec} at "
                             f"vt={vt(run.world)} after the required {fns} failed to start (strategy {strategy}) in the "
                             f"same start plan", case=run.describe())

    def note_failure(self, sender, inc, epoch, namespec, step):
        app, prog = self.run.prog_of(namespec)
        if prog.get('required_eff'):
            key = (sender, inc, epoch, namespec.split(':')[0])
            self.failed_required.setdefault(key, (namespec, prog['starting_failure_eff'], self.run.world.now, step))
            self.count('required_failures')

    def on_forced(self, inst, rec):
        if rec['state'] == ProcessStates.FATAL:
            self.note_failure(inst.nick, inst.inc, rec['epoch'], rec['namespec'], self.run.world.steps)

    def on_event(self, ev):
        pass

    def finish(self, run):
        self.nontrivial = self.counters.get('process_order_checks', 0) >= 2 and len(self.plans) >= 1
        return self.violations


# ---------------------------------------------------------------------------------------------------

class EligibilityMonitor(Monitor):
    """ C04: every start request goes to an eligible instance with spare load (independent computation). """

    def __init__(self, tracker):
        Monitor.__init__(self)
        self.tracker = tracker

    def attach(self, run):
        Monitor.attach(self, run)
        self.tracker.listeners_start.append(self.on_start)
        self.tracker.listeners_forced.append(self.on_forced)
        w = run.world
        self.node_of = {ident(w, s['nick']): s['node'] for s in w.specs}
        self.nick_of = {ident(w, s['nick']): s['nick'] for s in w.specs}

    def allowed(self, namespec):
        app, prog = self.run.prog_of(namespec)
        rule = prog.get('identifiers', ['*'])
        if app['managed'] and app.get('distribution', 'ALL_INSTANCES') != 'ALL_INSTANCES':
            rule = app['identifiers']
        if '*' in rule:
            return set(self.node_of)
        return {i for i, n in self.nick_of.items() if n in rule}

    def knows(self, target, namespec):
        """ Does the Supervisor of the target know the process, enabled ? (truth) """
        w = self.run.world
        nick = self.nick_of[target]
        spec = w.spec_of(nick)
        app_name, prog_name = self.run.procs[namespec]
        if prog_name not in spec['groups'].get(app_name, {}):
            return 'unknown'
        if prog_name in (spec.get('disabled') or []):
            return 'disabled'
        return 'ok'

    def sender_view(self, inst):
        w = self.run.world
        states = {i['identifier']: i['statename'] for i in peek(w, inst.nick, 'supvisors.get_all_instances_info')}
        try:
            procs = peek(w, inst.nick, 'supvisors.get_all_process_info')
        except Fault:
            procs = []
        return states, procs

    def node_loads(self, inst, procs, exclude=None):
        """ expected_loading of everything the sender sees running, per node, plus its unacknowledged starts. """
        run, tr = self.run, self.tracker
        loads = {}
        running_view = set()
        for p in procs:
            namespec = f"{p['application_name']}:{p['process_name']}"
            if p['statecode'] in RUN_CODES:  # a STOPPING process is not counted as running (left open by C04)
                if namespec not in run.procs:
                    continue
                load = run.prog_of(namespec)[1].get('expected_loading', 0)
                for identifier in p['identifiers']:
                    loads[self.node_of[identifier]] = loads.get(self.node_of[identifier], 0) + load
                    running_view.add((namespec, identifier))
        pending = {}
        self.pending_by_app = {}
        for req in tr.outstanding(inst.nick, inst.inc):
            if req is exclude or (req['namespec'], req['target']) in running_view:
                continue
            load = run.prog_of(req['namespec'])[1].get('expected_loading', 0)
            node = self.node_of[req['target']]
            pending[node] = pending.get(node, 0) + load
            key = (node, req['namespec'].split(':')[0])
            self.pending_by_app[key] = self.pending_by_app.get(key, 0) + load
        return loads, pending, running_view

    def on_start(self, inst, req):
        run, tr = self.run, self.tracker
        w = run.world
        namespec, target = req['namespec'], req['target']
        states, procs = self.sender_view(inst)
        self.count('requests_checked')
        where = f"{req['sender']} -> {req['target_nick']} for {namespec} at vt={vt(w)}"
        if states.get(target) != 'RUNNING':
            self.violate('C04/target-not-running', f'start request {where}: the requester sees the target '
                         f'{states.get(target)}', case=run.describe())
        known = self.knows(target, namespec)
        if known != 'ok':
            self.violate(f'C04/target-{known}', f'start request {where}: the program is {known} on the target',
                         case=run.describe())
        if target not in self.allowed(namespec):
            self.violate('C04/target-not-allowed', f'start request {where}: not permitted by the applicable '
                         f'identifiers rule {sorted(self.nick_of[i] for i in self.allowed(namespec))}',
                         case=run.describe())
        loads, pending, running_view = self.node_loads(inst, procs)
        node = self.node_of[target]
        load = run.prog_of(namespec)[1].get('expected_loading', 0)
        total = loads.get(node, 0) + pending.get(node, 0) + load
        if pending.get(node, 0):
            self.count('requests_with_pending_load')
        if loads.get(node, 0) + load > 60:
            self.count('requests_near_cap')
        if total > 100:
            app_name = namespec.split(':')[0]
            app = run.prog_of(namespec)[0]
            own = self.pending_by_app.get((node, app_name), 0)
            foreign = [f for f in tr.forced if f['sender'] != inst.nick and f['t'] >= w.now - 2 * TICK and
                       any(r['namespec'] == f['namespec'] and self.node_of[r['target']] == node
                           for r in tr.outstanding(inst.nick, inst.inc))]
            if loads.get(node, 0) + own + load <= 100:
                key = 'C04/node-overload:pending-of-other-application'
            elif foreign:
                # the requester dropped its own in-flight commands when ANOTHER instance starting the same
                # application published a forced state for these processes
                key = 'C04/node-overload:own-request-dropped-on-foreign-forced-state'
            elif app['managed'] and app.get('distribution', 'ALL_INSTANCES') != 'ALL_INSTANCES':
                key = 'C04/node-overload:preassigned-restricted-distribution'
            else:
                key = 'C04/node-overload'
            self.violate(key, f'start request {where}: node {node} load = {loads.get(node, 0)} running + '
                         f'{pending.get(node, 0)} already requested + {load} = {total} > 100', case=run.describe())
        view = next((p for p in procs if f"{p['application_name']}:{p['process_name']}" == namespec), None)
        if view and view['statecode'] in RUN_CODES:
            self.violate('C04/already-running', f'start request {where}: the requester already sees it '
                         f"{view['statename']} on {view['identifiers']}", case=run.describe())
        if any(r['namespec'] == namespec for r in tr.outstanding(inst.nick, inst.inc)):
            self.violate('C04/already-requested', f'start request {where}: the same requester has an unfinished '
                         f'start request for it', case=run.describe())

    def on_forced(self, inst, rec):
        """ 'No resource available' must be true by the independent computation (automatic plans only). """
        if rec['reason'] != 'No resource available' or rec['sender_state'] != 'DISTRIBUTION':
            return
        run = self.run
        namespec = rec['namespec']
        app, prog = run.prog_of(namespec)
        if not app['managed'] or app.get('distribution') != 'ALL_INSTANCES':
            return
        strategy = app.get('starting_strategy') or run.scenario['options'].get('starting_strategy', 'CONFIG')
        states, procs = self.sender_view(inst)
        loads, pending, _ = self.node_loads(inst, procs)
        load = prog.get('expected_loading', 0)
        self.count('no_resource_checked')
        candidates = []
        for identifier in self.allowed(namespec):
            if states.get(identifier) != 'RUNNING' or self.knows(identifier, namespec) != 'ok':
                continue
            if strategy == 'LOCAL' and identifier != inst.identifier:
                continue
            node = self.node_of[identifier]
            if loads.get(node, 0) + pending.get(node, 0) + load <= 100:
                candidates.append(self.nick_of[identifier])
        if candidates:
            self.violate('C04/no-resource-but-eligible', f"{inst.nick} reported 'No resource available' for "
                         f'{namespec} (load {load}) at vt={vt(run.world)} although {candidates} qualify '
                         f'(node loads {loads}, pending {pending})', case=run.describe())


# ---------------------------------------------------------------------------------------------------

class AgreementMonitor(Monitor):
    """ C12: at quiescence every member of a group reports the same running set and running state for every
    process, and that set is what the Supervisors of the instances it sees RUNNING really report. """

    ACTIVE = ('CHECKING', 'CHECKED', 'RUNNING', 'FAILED')

    def attach(self, run):
        Monitor.attach(self, run)
        w = run.world
        self.peer_view = {}     # (observer nick, observer inc) -> {peer identifier: state name}
        self.unpublished = {}   # (observer nick, source nick) -> namespecs whose event was not published to observer
        self.snapshot_taken = set()
        w.on_hook('instance_state', self.on_instance_state)
        w.listeners.append(self.on_event)

    def on_instance_state(self, inst, identifier, new_state):
        self.peer_view.setdefault((inst.nick, inst.inc), {})[identifier] = new_state.name
        peer = self.run.world.by_identifier.get(identifier)
        if new_state.name == 'CHECKING':
            self.snapshot_taken.discard((inst.nick, peer))
            # a fresh snapshot of that peer is going to be taken
            self.unpublished.pop((inst.nick, peer), None)
        elif new_state.name != 'CHECKED':
            self.snapshot_taken.discard((inst.nick, peer))

    def on_event(self, ev):
        w = self.run.world
        if ev['k'] == 'rpc_ret' and ev['method'] == 'supvisors.get_all_local_process_info' and ev['src'] != 'user':
            # the observer has just taken its snapshot of that peer (loaded when the notification is processed)
            self.snapshot_taken.add((ev['src'], ev['dst']))
            return
        if ev['k'] != 'truth':
            return
        src = w.instances.get(ev['inst'])
        if src is None:
            return
        view = self.peer_view.get((src.nick, src.inc), {})
        for inst in w.live():
            if inst.nick != src.nick and view.get(inst.identifier, 'STOPPED') not in self.ACTIVE:
                # the source does not publish process events to a peer it does not see active
                self.unpublished.setdefault((inst.nick, src.nick), set()).add(ev['namespec'])
                self.count('events_not_published')
            elif (inst.nick, src.nick) in self.snapshot_taken and \
                    self.peer_view.get((inst.nick, inst.inc), {}).get(src.identifier) == 'CHECKING':
                # published, but the observer drops the events of a peer that is not yet CHECKED
                self.unpublished.setdefault((inst.nick, src.nick), set()).add(ev['namespec'])
                self.count('events_after_snapshot_before_admission')

    def mechanism(self, observer, namespec, identifiers):
        w = self.run.world
        for identifier in (identifiers or list(w.by_identifier)):
            if namespec in self.unpublished.get((observer, w.by_identifier.get(identifier)), ()):
                return ':event-lost-in-handshake-window'
        return ''

    def finish(self, run):
        w = run.world
        if not w.quiescent():
            # give the cluster a little more time to drain
            w.run_for(3 * TICK)
        if not w.quiescent():
            self.count('not_quiescent')
            return self.violations
        vws = views(w)
        comps, cliques = groups(w, vws)
        for comp, clique in zip(comps, cliques):
            if not clique:
                continue
            reports = {}
            for nick in comp:
                if vws[nick]['state'] not in ('DISTRIBUTION', 'OPERATION', 'CONCILIATION'):
                    continue
                try:
                    reports[nick] = {f"{p['application_name']}:{p['process_name']}": p
                                     for p in peek(w, nick, 'supvisors.get_all_process_info')}
                except Fault:
                    continue
            if not reports:
                continue
            self.count('groups_evaluated')
            flagged = set()
            for nick, procs in reports.items():
                seen_running = {i for i, s in vws[nick]['instance_states'].items() if s == 'RUNNING'}
                for namespec, p in procs.items():
                    self.count('process_views_compared')
                    listed = set(p['identifiers'])
                    truth = set()
                    for identifier in seen_running:
                        inst = w.instances.get(w.by_identifier.get(identifier))
                        if inst is None or not inst.alive:
                            continue
                        state = inst.running_truth().get(namespec)
                        if state in RUNNING_STATES or (state == ProcessStates.STOPPING and identifier in listed):
                            truth.add(identifier)
                    if listed != truth:
                        missing = truth - listed
                        kind = 'missing' if missing else 'stale'
                        mech = self.mechanism(nick, namespec, listed ^ truth)
                        if mech:
                            flagged.add(namespec)
                        self.violate(f'C12/view-vs-truth:{kind}{mech}', f'{nick} lists {namespec} on '
                                     f'{sorted(w.by_identifier[i] for i in listed)} at quiescence (vt={vt(w)}) but '
                                     f'the Supervisors it sees RUNNING report it running on '
                                     f'{sorted(w.by_identifier[i] for i in truth)}', case=run.describe())
                    if truth:
                        self.count('running_views_compared')
            nicks = sorted(reports)
            for other in nicks[1:]:
                for namespec, p in reports[nicks[0]].items():
                    q = reports[other].get(namespec)
                    if q is None:
                        continue
                    self.count('pairs_compared')
                    run_a, run_b = p['statecode'] in (10, 20, 30, 40), q['statecode'] in (10, 20, 30, 40)
                    if set(p['identifiers']) != set(q['identifiers']) or run_a != run_b or \
                            (run_a and p['statecode'] != q['statecode']):
                        mech = ':event-lost-in-handshake-window' if namespec in flagged else \
                            (self.mechanism(nicks[0], namespec, set(p['identifiers']) | set(q['identifiers'])) or
                             self.mechanism(other, namespec, set(p['identifiers']) | set(q['identifiers'])))
                        self.violate(f'C12/disagreement{mech}', f'{nicks[0]} reports {namespec} {p["statename"]} on '
                                     f'{sorted(w.by_identifier[i] for i in p["identifiers"])} while {other} reports '
                                     f'{q["statename"]} on {sorted(w.by_identifier[i] for i in q["identifiers"])} '
                                     f'at quiescence (vt={vt(w)})', case=run.describe())
        return self.violations
