""" Monitors for the application workload: request tracker (shared), C03, C04, C09, C10, C12. """
import os

from supervisor.states import ProcessStates, RUNNING_STATES, STOPPED_STATES

from monitors.lib import Monitor
from vsim.cluster import peek, vt, ident, views, groups, Fault, TICK
from vsim.gen import effective_options

RUN_CODES = (10, 20, 30)


class Tracker(Monitor):
    """ Shadows, from the hooks and the truth stream: every start / stop request (emission, delivery, resolution),
    the forced states published, the Supvisors state of every sender, the true state of every process. """

    def attach(self, run):
        Monitor.attach(self, run)
        w = run.world
        self.w = w
        self.truth = {}            # (nick, namespec) -> current state
        self.ever_started = set()  # namespecs that have truly been started somewhere
        self.requests = []         # start requests
        self.stops = []            # stop requests
        self.open_starts = []      # unresolved ones
        self.open_stops = []
        self.sender_state = {}     # (nick, inc) -> fsm state name
        self.visit = {}            # (nick, inc) -> counter incremented on every state change
        self.forced = []           # forced states published
        self.listeners_start = []  # callbacks(request) at emission, before the request is recorded
        self.listeners_stop = []
        self.listeners_forced = []
        self.listeners_resolved = []
        self.dispatch = 0
        w.listeners.append(self.on_event)
        w.on_hook('send_start_process', self.on_start)
        w.on_hook('send_stop_process', self.on_stop)
        w.on_hook('send_state_event', self.on_state)
        w.on_hook('force_process_state', self.on_forced)
        w.on_hook('instance_state', self.on_instance_state)
        self.stop_epoch = {}       # (nick, inc, app) -> current stop plan
        self.last_plan = {}        # (nick, inc, 'start'|'stop') -> time of the last plan created
        w.on_hook('stopper_stop_applications', lambda inst, *a, **k: self.bump_stop(inst, None, 'all'))
        w.on_hook('stopper_stop_application',
                  lambda inst, application, *a, **k: self.bump_stop(inst, application.application_name, 'app'))
        w.on_hook('stopper_stop_process',
                  lambda inst, process, *a, **k: self.bump_stop(inst, process.application_name, 'process'))
        self.epoch = {}            # (nick, inc, app) -> plan counter (entry points of the Starter)
        self.queued_epochs = set()
        self.distribution_epochs = set()
        self.process_epochs = set()
        self.epoch_info = {}       # (nick, inc, app, epoch) -> what was known when the plan was built
        self.received = {}         # (receiver nick, inc, source nick, namespec) -> (time, state) of the last event
        w.on_hook('fsm_process_event', self.on_process_event_received)
        w.on_hook('starter_start_applications', lambda inst, *a, **k: self.bump(inst, None))
        w.on_hook('starter_start_application',
                  lambda inst, strategy, application, *a, **k: self.bump(inst, application.application_name))
        w.on_hook('starter_start_process',
                  lambda inst, strategy, process, *a, **k: self.bump(inst, process.application_name, single=True))

    # -- senders ------------------------------------------------------------------------------------
    def on_state(self, inst, payload):
        key = (inst.nick, inst.inc)
        state = payload['fsm_statename']
        if self.sender_state.get(key) != state:
            old = self.sender_state.get(key)
            self.sender_state[key] = state
            self.visit[key] = self.visit.get(key, 0) + 1
            if state in ('OFF', 'SYNCHRONIZATION', 'ELECTION', 'RESTARTING', 'SHUTTING_DOWN', 'FINAL'):
                # entering these states aborts every job of the instance
                for req in self.open_starts + self.open_stops:
                    if req['sender'] == inst.nick and req['inc'] == inst.inc and not req['resolved']:
                        self.resolve(req, 'sender-aborted')

    def bump_stop(self, inst, app_name, kind):
        """ A new stop plan begins at this instance: application-level ('app' / 'all') or process-level. """
        apps = [app_name] if app_name else list(self.run.model)
        w = self.w
        for app in apps:
            key = (inst.nick, inst.inc, app)
            old = self.stop_epoch.get(key)
            number = (old['n'] + 1) if old else 1
            # what the plan is made of: the processes the instance sees running (or stopping) at that moment
            running, seen_states = {}, {}
            try:
                for info in peek(w, inst.nick, 'supvisors.get_process_info', app + ':*'):
                    ns = f"{info['application_name']}:{info['process_name']}"
                    for identifier in info['identifiers']:
                        running.setdefault(ns, set()).add(w.by_identifier.get(identifier))
                        seen_states[ns] = info['statecode']
            except Fault:
                pass
            if kind == 'process' and old and not old.get('closed'):
                # a process-level stop joins the plan in progress, which is no longer a pure application stop
                old['pure'] = False
                continue
            # a plan requested while the previous one of the same application is still in progress is queued behind
            # it: the requests that follow cannot be attributed to one of them, so the clauses are not evaluated
            overlapping = any(r['sender'] == inst.nick and r['inc'] == inst.inc and
                              r['namespec'].split(':')[0] == app for r in self.open_stops)
            try:
                # the Stopper (or the Starter, for a restart) of that instance already has a job for the application
                overlapping = overlapping or app in inst.supvisors.stopper.get_application_job_names() or \
                    app in inst.supvisors.starter.get_application_job_names()
            except Exception:
                pass
            self.stop_epoch[key] = {'n': number, 'kind': kind, 'pure': kind != 'process' and not overlapping,
                                    'running': running, 'states': seen_states, 't': w.now, 'step': w.steps}
        self.last_plan[(inst.nick, inst.inc, 'stop')] = w.now
        self.count('stop_plans')

    def stop_epoch_of(self, nick, inc, app):
        return self.stop_epoch.get((nick, inc, app))

    def bump(self, inst, app_name, single=False):
        """ A new start plan begins for the application(s) at this instance. """
        apps = [app_name] if app_name else list(self.run.model)
        if app_name and not single and app_name in self.run.model and not any(
                prog.get('start_sequence', 0) > 0 for prog in self.run.model[app_name]['programs'].values()):
            # an application without any sequenced program has no start plan (the request is refused): the requests
            # that follow still belong to the plans in progress
            self.count('application_plans_without_sequence')
            return
        try:
            busy = set(inst.supvisors.starter.get_application_job_names())
        except Exception:
            busy = set()
        # what the instance knows, when it builds the plan, of the jobs in progress on the other instances
        try:
            state = peek(self.w, inst.nick, 'supvisors.get_supvisors_state')
            foreign = sorted({i for i in list(state['starting_jobs']) + list(state['stopping_jobs'])
                              if i != inst.identifier})
        except Fault:
            foreign = []
        for app in apps:
            key = (inst.nick, inst.inc, app)
            self.epoch[key] = self.epoch.get(key, 0) + 1
            self.epoch_info[key + (self.epoch[key],)] = {'t': self.w.now, 'foreign_jobs': foreign}
            if app_name is None:
                # the automatic start of every application (DISTRIBUTION, restart_sequence)
                self.distribution_epochs.add((inst.nick, inst.inc, app, self.epoch[key]))
            if single:
                # the start of one process (start_process, start_args, a RESTART_PROCESS repair): not a sequence
                self.process_epochs.add((inst.nick, inst.inc, app, self.epoch[key]))
            # a plan requested while another one of the same application is in progress at that instance is queued
            # behind it (or merged into it): the requests that follow cannot be attributed to one of them
            if app in busy:
                self.queued_epochs.add((inst.nick, inst.inc, app, self.epoch[key]))
                self.count('start_plans_queued_behind_another')
        self.last_plan[(inst.nick, inst.inc, 'start')] = self.w.now
        self.count('start_plans')

    def on_process_event_received(self, inst, status, event):
        namespec = f"{event['group']}:{event['name']}"
        source = self.w.by_identifier.get(status.identifier)
        # production instant in world time, from the stamp of the source (its monotonic clock has a known offset)
        produced = self.w.now
        if 'forced' not in event and source is not None:
            produced = event['now_monotonic'] - self.w.spec_of(source).get('mono_off', 0.0) + 1_700_000_000.0
        history = self.received.setdefault((inst.nick, inst.inc, source, namespec), [])
        history.append((self.w.now, event['state'], produced))
        del history[:-6]

    def judged_on_older_event(self, req, states):
        """ The requester has received, since it emitted this request, an event of that process in one of the given
        states that was produced before the request was delivered (or while it is still undelivered): it belongs to an
        earlier start / stop cycle (another requester, an earlier plan) and cannot be the answer to this request. """
        early = req.get('early_event')
        if early and early[1] in states:
            return True
        for got in self.received.get((req['sender'], req['inc'], req['target_nick'], req['namespec']), ()):
            if got[0] >= req['t'] and got[1] in states and \
                    (req['delivered'] is None or got[2] < req.get('delivered_t', 0.0)):
                return True
        return False

    def epoch_of(self, inst_nick, inc, app):
        return self.epoch.get((inst_nick, inc, app), 0)

    def state_of(self, inst):
        return self.sender_state.get((inst.nick, inst.inc), 'OFF')

    def on_instance_state(self, inst, identifier, new_state):
        if new_state.name in ('FAILED', 'STOPPED', 'ISOLATED'):
            for req in self.open_starts + self.open_stops:
                if req['sender'] == inst.nick and req['inc'] == inst.inc and req['target'] == identifier \
                        and not req['resolved']:
                    self.resolve(req, 'target-lost')

    # -- requests -----------------------------------------------------------------------------------
    def on_start(self, inst, identifier, namespec, extra_args):
        w = self.w
        req = {'kind': 'start', 'sender': inst.nick, 'inc': inst.inc, 'target': identifier,
               'target_nick': w.by_identifier.get(identifier), 'namespec': namespec, 't': w.now, 'step': w.steps,
               'resolved': None, 'delivered': None, 'sender_state': self.state_of(inst),
               'visit': self.visit.get((inst.nick, inst.inc), 0), 'started': False,
               'epoch': self.epoch_of(inst.nick, inst.inc, namespec.split(':')[0])}
        for cb in self.listeners_start:
            cb(inst, req)
        self.requests.append(req)
        self.open_starts.append(req)
        self.count('start_requests')

    def on_stop(self, inst, identifier, namespec):
        w = self.w
        req = {'kind': 'stop', 'sender': inst.nick, 'inc': inst.inc, 'target': identifier,
               'target_nick': w.by_identifier.get(identifier), 'namespec': namespec, 't': w.now, 'step': w.steps,
               'resolved': None, 'delivered': None, 'sender_state': self.state_of(inst),
               'visit': self.visit.get((inst.nick, inst.inc), 0),
               'plan': self.stop_epoch_of(inst.nick, inst.inc, namespec.split(':')[0])}
        for cb in self.listeners_stop:
            cb(inst, req)
        self.stops.append(req)
        self.open_stops.append(req)
        self.count('stop_requests')

    def on_forced(self, inst, process, identifier, event_time, forced_state, reason):
        rec = {'sender': inst.nick, 'inc': inst.inc, 'namespec': process.namespec, 'target': identifier,
               'state': int(forced_state), 'reason': reason, 't': self.w.now, 'event_time': event_time,
               'visit': self.visit.get((inst.nick, inst.inc), 0), 'sender_state': self.state_of(inst),
               'epoch': self.epoch_of(inst.nick, inst.inc, process.application_name)}
        for cb in self.listeners_forced:
            cb(inst, rec)
        self.forced.append(rec)
        self.count('forced_states')
        for req in self.open_starts + self.open_stops:
            if req['sender'] == inst.nick and req['inc'] == inst.inc and req['namespec'] == process.namespec \
                    and not req['resolved'] and (not identifier or req['target'] == identifier):
                self.resolve(req, 'given-up')

    def resolve(self, req, how):
        req['resolved'] = how
        req['resolved_t'] = self.w.now
        pool = self.open_starts if req['kind'] == 'start' else self.open_stops
        if req in pool:
            pool.remove(req)
        for cb in self.listeners_resolved:
            cb(req, how)

    def outstanding(self, sender, inc, kind='start'):
        pool = self.open_starts if kind == 'start' else self.open_stops
        return [r for r in pool if r['sender'] == sender and r['inc'] == inc and not r['resolved']]

    # -- truth / transport events -------------------------------------------------------------------
    def on_event(self, ev):
        kind = ev['k']
        if kind == 'truth':
            key = (ev['inst'], ev['namespec'])
            state = ev['state']
            self.truth[key] = state
            if state in RUN_CODES:
                self.ever_started.add(ev['namespec'])
            run = self.run
            for req in self.open_starts + self.open_stops:
                if not req['resolved'] and req['target_nick'] == ev['inst'] and req['namespec'] == ev['namespec'] \
                        and req['delivered'] is None:
                    # an event of that process produced after the emission of the request and before its delivery:
                    # it belongs to an earlier cycle (another requester, an earlier plan)
                    req['early_event'] = (ev['t'], state)
            for req in list(self.open_starts):
                if req['resolved'] or req['target_nick'] != ev['inst'] or req['namespec'] != ev['namespec']:
                    continue
                if state == ProcessStates.STARTING:
                    req['started'] = True
                elif state == ProcessStates.RUNNING:
                    wait_exit = run.prog_of(req['namespec'])[1].get('wait_exit')
                    # (wait_exit holds for every plan that starts an application - automatic start, restart_sequence,
                    # start / restart_application - not for the start of one process, which is out of any sequence)
                    if wait_exit and (req['sender_state'] == 'DISTRIBUTION' or
                                      (req['sender'], req['inc'], req['namespec'].split(':')[0], req['epoch'])
                                      not in self.process_epochs):
                        req['running'] = True
                    else:
                        self.resolve(req, 'running')
                elif state == ProcessStates.EXITED:
                    self.resolve(req, 'exited-expected' if ev.get('expected') else 'exited-unexpected')
                elif state in (ProcessStates.FATAL, ProcessStates.STOPPED, ProcessStates.UNKNOWN,
                               ProcessStates.STOPPING):
                    if req['started'] or req['delivered']:
                        self.resolve(req, 'failed')
            for req in list(self.open_stops):
                if req['resolved'] or req['target_nick'] != ev['inst'] or req['namespec'] != ev['namespec']:
                    continue
                if state in STOPPED_STATES:
                    self.resolve(req, 'stopped')
        elif kind in ('rpc_call', 'rpc_ret', 'rpc_fault', 'rpc_fail', 'rpc_drop'):
            method = ev['method']
            if method == 'supvisors.start_args' or method == 'supervisor.stopProcess':
                pool = self.open_starts if method == 'supvisors.start_args' else self.open_stops
                namespec = ev['args'][0]
                for req in list(pool):
                    if req['sender'] == ev['src'] and req['target_nick'] == ev['dst'] and \
                            req['namespec'] == namespec and req.get('rpc_id') in (None, ev['id']) and \
                            (kind == 'rpc_call') == (req.get('rpc_id') is None):
                        if kind == 'rpc_call':
                            # the state events produced while the request is served belong to it
                            req['rpc_id'] = ev['id']
                            req['delivered'] = 'calling'
                            req['delivered_t'] = self.w.now
                        else:
                            req['delivered'] = kind
                            if kind == 'rpc_fault':
                                req['fault'] = ev.get('code')
                            if kind in ('rpc_fail', 'rpc_drop'):
                                req['delivered'] = None if kind == 'rpc_drop' else kind
                        break
        elif kind == 'crash':
            for req in self.open_starts + self.open_stops:
                if req['target_nick'] == ev['inst'] and not req['resolved']:
                    # the sender does not know yet; it is resolved when the sender invalidates the target
                    req['target_crashed'] = True
                if req['sender'] == ev['inst'] and not req['resolved']:
                    self.resolve(req, 'sender-crashed')

    def truly_running(self, namespec):
        return [nick for (nick, ns), st in self.truth.items() if ns == namespec and st in RUN_CODES
                and self.w.instances[nick].alive]

    def finish(self, run):
        return []


# ---------------------------------------------------------------------------------------------------

class StartSequenceMonitor(Monitor):
    """ C03 (see DESIGN.md 8/C03 and the module docstring of monitors/c03_start_sequence.py). """

    def __init__(self, tracker):
        Monitor.__init__(self)
        self.tracker = tracker
        self.failed_required = {}   # (sender, inc, visit, app) -> (namespec, strategy, t)
        self.plans = set()

    def attach(self, run):
        Monitor.attach(self, run)
        self.tracker.listeners_start.append(self.on_start)
        self.tracker.listeners_forced.append(self.on_forced)
        self.tracker.listeners_resolved.append(self.on_resolved)
        run.world.listeners.append(self.on_event)

    def on_resolved(self, req, how):
        # the host of a starting process is lost: the start is given up, which is a failure of the process
        if req['kind'] == 'start' and how == 'target-lost':
            self.count('starts_given_up_on_host_loss')
            self.note_failure(req['sender'], req['inc'], req['epoch'], req['namespec'], self.run.world.steps)
        elif req['kind'] == 'start' and how in ('failed', 'exited-unexpected'):
            # the requester learns it when the event is delivered; no request of the same application can be
            # emitted in between (the failed command is still in its current jobs)
            self.note_failure(req['sender'], req['inc'], req['epoch'], req['namespec'], -1)

    def seqs(self, namespec):
        app, prog = self.run.prog_of(namespec)
        return app.get('start_sequence', 0), prog.get('start_sequence', 0)

    def on_start(self, inst, req):
        run, tr = self.run, self.tracker
        namespec = req['namespec']
        app_name = namespec.split(':')[0]
        app_seq, seq = self.seqs(namespec)
        app, prog = run.prog_of(namespec)
        automatic = req['sender_state'] == 'DISTRIBUTION'
        self.count('start_emissions')
        self.plans.add((req['sender'], req['inc'], req['epoch'], app_name))
        outstanding = tr.outstanding(req['sender'], req['inc'])
        # 1. processes of the same application with a lower positive sequence are done or given up
        if seq > 0:
            for other in outstanding:
                if other['namespec'].split(':')[0] == app_name and other['step'] != req['step']:
                    oseq = self.seqs(other['namespec'])[1]
                    if tr.truth.get((other['target_nick'], other['namespec'])) == ProcessStates.RUNNING \
                            and not other.get('running'):
                        continue  # started there by somebody else: nothing left to wait for
                    if 0 < oseq < seq:
                        self.count('nontrivial_order_checks')
                        mech = ''
                        if tr.judged_on_older_event(other, (0, 40, 100, 200, 1000)):
                            # the requester has judged its request (failed) on an event of that process which was
                            # produced before the request was even delivered (an earlier start / stop cycle)
                            mech = ':request-judged-on-an-event-older-than-its-delivery'
                        self.violate('C03/process-order' + mech, f"{req['sender']} requested {namespec} (start_sequence {seq})"
                                     f" at vt={vt(run.world)} while its request for {other['namespec']} (start_sequence"
                                     f" {oseq}) on {other['target_nick']} is not finished: true state there "
                                     f"{tr.truth.get((other['target_nick'], other['namespec']))}, delivered="
                                     f"{other['delivered']}", case=run.describe())
            self.count('process_order_checks')
        # 2. applications with a lower positive sequence are done
        if app_seq > 0:
            for other in outstanding:
                oapp = other['namespec'].split(':')[0]
                if oapp != app_name:
                    oapp_seq = self.seqs(other['namespec'])[0]
                    if 0 < oapp_seq < app_seq:
                        self.violate('C03/application-order', f"{req['sender']} requested {namespec} (application "
                                     f"start_sequence {app_seq}) at vt={vt(run.world)} while its request for "
                                     f"{other['namespec']} (application start_sequence {oapp_seq}) is not finished",
                                     case=run.describe())
            self.count('application_order_checks')
        in_distribution_plan = (req['sender'], req['inc'], app_name, req['epoch']) in tr.distribution_epochs
        if in_distribution_plan:
            self.count('distribution_plan_emissions')
            if app_seq == 0 or seq == 0:
                self.violate('C03/sequence-0-started:by-the-automatic-start', f"{req['sender']} requested {namespec} "
                             f"whose start_sequence is application={app_seq} process={seq} as part of the automatic "
                             f"start of all applications at vt={vt(run.world)}", case=run.describe())
        plan_key = (req['sender'], req['inc'], app_name, req['epoch'])
        if seq > 0 and plan_key not in tr.process_epochs and plan_key not in tr.queued_epochs:
            # 1b. a lower sequence process that the requester itself sees STARTING / BACKOFF, that it has not requested
            #     in this plan (started through another instance, by Supervisor, ...), has not finished starting
            w = run.world
            for other_ns, (oapp, oprog) in run.procs.items():
                if oapp != app_name or other_ns == namespec:
                    continue
                oseq = run.model[oapp]['programs'][oprog].get('start_sequence', 0)
                if not 0 < oseq < seq:
                    continue
                if any(r['namespec'] == other_ns and r['sender'] == req['sender'] and r['inc'] == req['inc'] and
                       r['epoch'] == req['epoch'] for r in tr.requests):
                    continue   # requested by this plan: clause 1
                where = [i.nick for i in w.live() if tr.truth.get((i.nick, other_ns)) in (10, 30)]
                if not where:
                    continue
                self.count('foreign_start_checks')
                try:
                    seen = peek(w, req['sender'], 'supvisors.get_process_info', other_ns)[0]['statecode']
                except Fault:
                    continue
                if seen not in (10, 30):
                    continue
                info = tr.epoch_info.get(plan_key, {})
                if in_distribution_plan and req['sender_state'] == 'OPERATION' and info.get('foreign_jobs'):
                    # restart_sequence is refused while any instance has jobs in progress
                    mech = ':restart-sequence-served-over-jobs-in-progress-elsewhere'
                else:
                    # ApplicationStartJobs.process_job skips a process that is not stopped and moves on at once
                    mech = ':process-already-starting-skipped-without-waiting'
                self.violate('C03/process-order' + mech,
                             f"{req['sender']} ({req['sender_state']}) requested {namespec} (start_sequence {seq}) at "
                             f"vt={vt(w)} while it sees {other_ns} (start_sequence {oseq}) "
                             f"{'STARTING' if seen == 10 else 'BACKOFF'} on {where}, which it has not requested in this "
                             f"plan (jobs known elsewhere when the plan was built: {info.get('foreign_jobs')})",
                             case=run.describe())
        if automatic:
            self.count('automatic_emissions')
            # 3. sequence 0 is never started automatically: never by the automatic start of all applications, and by
            #    nothing else in DISTRIBUTION if it never ran (a running failure strategy may start it again)
            #    (RESTART_APPLICATION after the crash of one of its processes starts the whole application, also the
            #    processes of it that never ran)
            app_ever_ran = any(ns.split(':')[0] == app_name for ns in tr.ever_started)
            if (app_seq == 0 or seq == 0) and namespec not in tr.ever_started and not in_distribution_plan and \
                    not (seq > 0 and app_ever_ran):
                self.violate('C03/sequence-0-started', f"{req['sender']} in DISTRIBUTION requested {namespec} whose "
                             f"start_sequence is application={app_seq} process={seq} and which never ran",
                             case=run.describe())
            # 5. no process of a lower sequence has been skipped (by a plan that starts the application: the start of
            #    one process, e.g. a RESTART_PROCESS repair while in DISTRIBUTION, has no sequence to honour)
            if seq > 0 and (req['sender'], req['inc'], app_name, req['epoch']) not in tr.process_epochs:
                for other_ns, (oapp, oprog) in run.procs.items():
                    if oapp != app_name or other_ns == namespec:
                        continue
                    oseq = run.model[oapp]['programs'][oprog].get('start_sequence', 0)
                    if not 0 < oseq < seq:
                        continue
                    known = any(oprog in i.spec['groups'].get(oapp, {}) for i in run.world.live())
                    if not known:
                        continue  # no Supervisor knows it: it does not exist for Supvisors
                    try:
                        peek(run.world, req['sender'], 'supvisors.get_process_info', other_ns)
                    except Fault:
                        # the requester itself does not know the process yet (it is only defined on an instance whose
                        # handshake is still in progress - slow handshakes): it cannot be in its plan
                        self.count('skip_checks_process_unknown_to_the_requester')
                        continue
                    self.count('skip_checks')
                    if other_ns in tr.ever_started:
                        continue
                    requested = any(r['namespec'] == other_ns and r['sender'] == req['sender'] and
                                    r['inc'] == req['inc'] and r['epoch'] == req['epoch'] for r in tr.requests)
                    forced = any(f['namespec'] == other_ns and f['sender'] == req['sender'] and
                                 f['inc'] == req['inc'] and f['epoch'] == req['epoch'] for f in tr.forced)
                    if not requested and not forced:
                        self.violate('C03/process-skipped', f"{req['sender']} in DISTRIBUTION requested {namespec} "
                                     f"(start_sequence {seq}) although {other_ns} (start_sequence {oseq}) was never "
                                     f"started, never requested and never given up", case=run.describe())
        # 4. starting failure strategy
        key = (req['sender'], req['inc'], req['epoch'], app_name)
        failure = self.failed_required.get(key)
        if failure:
            fns, strategy, t, step = failure
            self.count('failure_strategy_checks')
            if (req['sender'], req['inc'], app_name, req['epoch']) in tr.queued_epochs:
                self.count('failure_strategy_checks_skipped_queued_plan')
            elif strategy in ('ABORT', 'STOP') and step != req['step']:
                self.violate(f'C03/request-after-{strategy}', f"{req['sender']} requested {namespec} at "
                             f"vt={vt(run.world)} after the required {fns} failed to start (strategy {strategy}) in the "
                             f"same start plan", case=run.describe())

    def note_failure(self, sender, inc, epoch, namespec, step):
        app, prog = self.run.prog_of(namespec)
        if prog.get('required_eff'):
            key = (sender, inc, epoch, namespec.split(':')[0])
            self.failed_required.setdefault(key, (namespec, prog['starting_failure_eff'], self.run.world.now, step))
            self.count('required_failures')

    def on_forced(self, inst, rec):
        if rec['state'] == ProcessStates.FATAL:
            self.note_failure(inst.nick, inst.inc, rec['epoch'], rec['namespec'], self.run.world.steps)

    def on_event(self, ev):
        pass

    def finish(self, run):
        self.nontrivial = self.counters.get('process_order_checks', 0) >= 2 and len(self.plans) >= 1
        return self.violations


# ---------------------------------------------------------------------------------------------------

class EligibilityMonitor(Monitor):
    """ C04: every start request goes to an eligible instance with spare load (independent computation). """

    def __init__(self, tracker):
        Monitor.__init__(self)
        self.tracker = tracker

    def attach(self, run):
        Monitor.attach(self, run)
        self.tracker.listeners_start.append(self.on_start)
        self.tracker.listeners_forced.append(self.on_forced)
        w = run.world
        self.node_of = {ident(w, s['nick']): s['node'] for s in w.specs}
        self.nick_of = {ident(w, s['nick']): s['nick'] for s in w.specs}

    def allowed(self, namespec):
        app, prog = self.run.prog_of(namespec)
        rule = prog.get('identifiers', ['*'])
        if app['managed'] and app.get('distribution', 'ALL_INSTANCES') != 'ALL_INSTANCES':
            rule = app['identifiers']
        if '*' in rule:
            return set(self.node_of)
        return {i for i, n in self.nick_of.items() if n in rule}

    def knows(self, target, namespec):
        """ Does the Supervisor of the target know the process, enabled ? (truth) """
        w = self.run.world
        nick = self.nick_of[target]
        spec = w.spec_of(nick)
        app_name, prog_name = self.run.procs[namespec]
        if prog_name not in spec['groups'].get(app_name, {}):
            return 'unknown'
        changed = getattr(self.run, 'runtime_disabled', {}).get((nick, prog_name))
        if prog_name in (spec.get('disabled') or []) and not changed:
            return 'disabled'
        if changed:
            # disabled / enabled at run time: the requester needs the time to learn it
            if w.now - changed[0] < 3 * TICK:
                return 'changing'
            return 'disabled' if changed[1] else 'ok'
        return 'ok'

    def sender_view(self, inst):
        w = self.run.world
        states = {i['identifier']: i['statename'] for i in peek(w, inst.nick, 'supvisors.get_all_instances_info')}
        try:
            procs = peek(w, inst.nick, 'supvisors.get_all_process_info')
        except Fault:
            procs = []
        return states, procs

    def node_loads(self, inst, procs, exclude=None):
        """ expected_loading of everything the sender sees running, per node, plus its unacknowledged starts. """
        run, tr = self.run, self.tracker
        loads = {}
        running_view = set()
        for p in procs:
            namespec = f"{p['application_name']}:{p['process_name']}"
            if p['statecode'] in RUN_CODES:  # a STOPPING process is not counted as running (left open by C04)
                if namespec not in run.procs:
                    continue
                load = run.prog_of(namespec)[1].get('expected_loading', 0)
                for identifier in p['identifiers']:
                    loads[self.node_of[identifier]] = loads.get(self.node_of[identifier], 0) + load
                    running_view.add((namespec, identifier))
        pending = {}
        self.pending_by_app = {}
        for req in tr.outstanding(inst.nick, inst.inc):
            if req is exclude or (req['namespec'], req['target']) in running_view:
                continue
            load = run.prog_of(req['namespec'])[1].get('expected_loading', 0)
            node = self.node_of[req['target']]
            pending[node] = pending.get(node, 0) + load
            key = (node, req['namespec'].split(':')[0])
            self.pending_by_app[key] = self.pending_by_app.get(key, 0) + load
        return loads, pending, running_view

    def on_start(self, inst, req):
        run, tr = self.run, self.tracker
        w = run.world
        namespec, target = req['namespec'], req['target']
        states, procs = self.sender_view(inst)
        self.count('requests_checked')
        where = f"{req['sender']} -> {req['target_nick']} for {namespec} at vt={vt(w)}"
        if states.get(target) != 'RUNNING':
            mech = ''
            app = run.model.get(namespec.split(':')[0], {})
            if states.get(target) == 'FAILED' and app.get('distribution', 'ALL_INSTANCES') != 'ALL_INSTANCES':
                # the instance chosen beforehand for a non-distributed application has just been declared FAILED and
                # is not invalidated yet (next periodic task): the request is sent to it all the same
                mech = ':failed-target-chosen-beforehand-for-a-non-distributed-application'
            self.violate('C04/target-not-running' + mech, f'start request {where}: the requester sees the target '
                         f'{states.get(target)}', case=run.describe())
        known = self.knows(target, namespec)
        if known not in ('ok', 'changing'):
            self.violate(f'C04/target-{known}', f'start request {where}: the program is {known} on the target',
                         case=run.describe())
        if target not in self.allowed(namespec):
            self.violate('C04/target-not-allowed', f'start request {where}: not permitted by the applicable '
                         f'identifiers rule {sorted(self.nick_of[i] for i in self.allowed(namespec))}',
                         case=run.describe())
        loads, pending, running_view = self.node_loads(inst, procs)
        node = self.node_of[target]
        load = run.prog_of(namespec)[1].get('expected_loading', 0)
        total = loads.get(node, 0) + pending.get(node, 0) + load
        if pending.get(node, 0):
            self.count('requests_with_pending_load')
        if loads.get(node, 0) + load > 60:
            self.count('requests_near_cap')
        if total > 100:
            app_name = namespec.split(':')[0]
            app = run.prog_of(namespec)[0]
            own = self.pending_by_app.get((node, app_name), 0)
            foreign = [f for f in tr.forced if f['sender'] != inst.nick and f['t'] >= w.now - 2 * TICK and
                       any(r['namespec'] == f['namespec'] and self.node_of[r['target']] == node
                           for r in tr.outstanding(inst.nick, inst.inc))]
            stale = [r for r in tr.outstanding(inst.nick, inst.inc) if self.node_of[r['target']] == node
                     and tr.judged_on_older_event(r, (0, 40, 100, 200, 1000))]
            if stale:
                # the requester has dropped a request of its own (and its load) on an event of an earlier cycle of
                # that process, before the request was delivered: the request is served later all the same
                key = 'C04/node-overload:own-request-judged-on-an-event-older-than-its-delivery'
            elif loads.get(node, 0) + own + load <= 100:
                key = 'C04/node-overload:pending-of-other-application'
            elif foreign:
                # the requester dropped its own in-flight commands when ANOTHER instance starting the same
                # application published a forced state for these processes
                key = 'C04/node-overload:own-request-dropped-on-foreign-forced-state'
            elif app['managed'] and app.get('distribution', 'ALL_INSTANCES') != 'ALL_INSTANCES':
                # known mechanism: the load is not validated again when each process of the plan is started, so
                # processes of ANOTHER application started on that node since the plan began overload it. Its cause
                # is tested: such a start request (from anybody) exists since the first request of this plan
                mine = [r['t'] for r in tr.requests if r['sender'] == inst.nick and r['inc'] == inst.inc and
                        r['namespec'].split(':')[0] == app_name and r['epoch'] == req['epoch']]
                t0 = min(mine + [w.now])
                # (another application, or the same application started at the same time through ANOTHER instance)
                foreign_since = [r for r in tr.requests
                                 if (r['namespec'].split(':')[0] != app_name or r['sender'] != inst.nick or
                                     r['inc'] != inst.inc)
                                 and self.node_of.get(r['target']) == node and r['t'] >= t0 - 2 * TICK]
                ek = (inst.nick, inst.inc, app_name, req['epoch'])
                if run.prog_of(namespec)[1].get('start_sequence', 0) == 0 and ek in tr.process_epochs and \
                        ek not in tr.queued_epochs:
                    # the start of ONE process that is outside the start sequence of its non-distributed application,
                    # not joined to a job in progress: the instance is chosen for the load of the start sequence of
                    # the application (get_start_sequence_expected_load), in which this process does not count
                    key = 'C04/node-overload:single-process-outside-the-start-sequence-of-a-non-distributed-application'
                elif foreign_since:
                    key = 'C04/node-overload:preassigned-restricted-distribution'
                else:
                    key = 'C04/node-overload:non-distributed-application-overloads-its-own-node'
            else:
                key = 'C04/node-overload'
            self.violate(key, f'start request {where}: node {node} load = {loads.get(node, 0)} running + '
                         f'{pending.get(node, 0)} already requested + {load} = {total} > 100', case=run.describe())
        view = next((p for p in procs if f"{p['application_name']}:{p['process_name']}" == namespec), None)
        if view and view['statecode'] in RUN_CODES:
            self.violate('C04/already-running', f'start request {where}: the requester already sees it '
                         f"{view['statename']} on {view['identifiers']}", case=run.describe())
        mine = [r for r in tr.outstanding(inst.nick, inst.inc) if r['namespec'] == namespec]
        if mine:
            mech = ''
            if any(tr.judged_on_older_event(r, (0, 10, 20, 30, 40, 100, 200, 1000)) for r in mine):
                # the requester has judged its previous request (completed, then failed) on events of an earlier cycle
                # of that process, received in a burst before that request was even delivered
                mech = ':own-request-judged-on-an-event-older-than-its-delivery'
            self.violate('C04/already-requested' + mech, f'start request {where}: the same requester has an unfinished '
                         f'start request for it', case=run.describe())

    def on_forced(self, inst, rec):
        """ 'No resource available' must be true by the independent computation (automatic plans only). """
        if rec['reason'] != 'No resource available' or rec['sender_state'] != 'DISTRIBUTION':
            return
        run = self.run
        namespec = rec['namespec']
        app, prog = run.prog_of(namespec)
        if not app['managed'] or app.get('distribution') != 'ALL_INSTANCES':
            return
        strategy = app.get('starting_strategy') or run.scenario['options'].get('starting_strategy', 'CONFIG')
        states, procs = self.sender_view(inst)
        loads, pending, _ = self.node_loads(inst, procs)
        load = prog.get('expected_loading', 0)
        self.count('no_resource_checked')
        candidates = []
        for identifier in self.allowed(namespec):
            if states.get(identifier) != 'RUNNING' or self.knows(identifier, namespec) != 'ok':
                continue
            if strategy == 'LOCAL' and identifier != inst.identifier:
                continue
            node = self.node_of[identifier]
            if loads.get(node, 0) + pending.get(node, 0) + load <= 100:
                candidates.append(self.nick_of[identifier])
        if candidates:
            self.violate('C04/no-resource-but-eligible', f"{inst.nick} reported 'No resource available' for "
                         f'{namespec} (load {load}) at vt={vt(run.world)} although {candidates} qualify '
                         f'(node loads {loads}, pending {pending})', case=run.describe())


# ---------------------------------------------------------------------------------------------------

class AgreementMonitor(Monitor):
    """ C12: at quiescence every member of a group reports the same running set and running state for every
    process, and that set is what the Supervisors of the instances it sees RUNNING really report. """

    ACTIVE = ('CHECKING', 'CHECKED', 'RUNNING', 'FAILED')

    def attach(self, run):
        Monitor.attach(self, run)
        w = run.world
        self.peer_view = {}     # (observer nick, observer inc) -> {peer identifier: state name}
        self.unpublished = {}   # (observer nick, source nick) -> namespecs whose event was not published to observer
        self.snapshot_taken = set()
        w.on_hook('instance_state', self.on_instance_state)
        w.on_hook('force_process_state', self.on_forced)
        w.listeners.append(self.on_event)
        self.blind_forced = {}  # namespec -> [(vt, sender nick, hosts not seen active)]
        self.sighted_forced = {}  # namespec -> [(vt, sender nick, instances where the forcer lists it running)]
        self.forced_by = {}     # namespec -> nicks that forced a stopped-like state for it
        self.forced_at = {}     # namespec -> [(time, nick)]
        self.spawned_at = {}    # (nick, namespec) -> time of the last spawn
        self.admitted_inc = {}  # (observer nick, inc, peer nick) -> incarnation of the peer at its last CHECKING
        self.tick_seen = {}     # (observer nick, inc, peer nick) -> (incarnation of the peer, counter of its last TICK)
        self.undetectable = set()   # (observer nick, inc, peer nick): a restart whose first TICK counter was not lower
        w.on_hook('ctx_tick', self.on_tick_received)
        w.on_hook('send_process_added_event', self.on_process_added)

    def on_process_added(self, src, process_info):
        # same handshake window for the PROCESS_ADDED publications (numprocs increased, group added again): a peer
        # that the source does not see active does not receive it, and will ignore every later event of that process
        w = self.run.world
        namespec = f"{process_info['group']}:{process_info['name']}"
        view = self.peer_view.get((src.nick, src.inc), {})
        for inst in w.live():
            if inst.nick != src.nick and view.get(inst.identifier, 'STOPPED') not in self.ACTIVE:
                self.unpublished.setdefault((inst.nick, src.nick), set()).add(namespec)
                self.count('process_added_not_published')
            elif (inst.nick, src.nick) in self.snapshot_taken and \
                    self.peer_view.get((inst.nick, inst.inc), {}).get(src.identifier) == 'CHECKING':
                self.unpublished.setdefault((inst.nick, src.nick), set()).add(namespec)
                self.count('process_added_not_published')

    def on_forced(self, inst, process, identifier, event_time, forced_state, reason):
        # a state forced by an instance that does not see (all) the Supervisors where the process truly runs
        w = self.run.world
        view = self.peer_view.get((inst.nick, inst.inc), {})
        try:
            listed = set(peek(w, inst.nick, 'supvisors.get_process_info', process.namespec)[0]['identifiers'])
        except (Fault, IndexError):
            listed = set()
        # the copies that truly run and that the forcer does not know of: their instance is not seen active
        # (handshake in progress) or their STARTING / RUNNING events are still in flight
        blind = [other.nick for other in w.live()
                 if other.running_truth().get(process.namespec) in RUNNING_STATES and other.nick != inst.nick
                 and (view.get(other.identifier, 'STOPPED') not in ('CHECKED', 'RUNNING')
                      or other.identifier not in listed)]
        if int(forced_state) not in RUNNING_STATES:
            self.forced_by.setdefault(process.namespec, set()).add(inst.nick)
            self.forced_at.setdefault(process.namespec, []).append((w.now, inst.nick))
        if blind and int(forced_state) not in RUNNING_STATES:
            self.blind_forced.setdefault(process.namespec, []).append((vt(w), inst.nick, blind))
            self.count('forced_states_without_seeing_the_host')
        elsewhere = sorted(i for i in listed if i != identifier)
        if elsewhere and int(forced_state) not in RUNNING_STATES:
            # the forcer gives up a request towards one instance while it lists the process running on ANOTHER one
            self.sighted_forced.setdefault(process.namespec, []).append((vt(w), inst.nick, elsewhere))
            self.count('forced_states_while_a_copy_is_listed_elsewhere')

    def forced_mechanism(self, nick, namespec):
        """ The instance displays a forced stopped-like state over a process that truly runs, and that state has been
        forced by an instance that did not see the host of the process at that moment (handshake in progress). """
        w = self.run.world
        try:
            process = w.instances[nick].supvisors.context.get_process(namespec)
        except KeyError:
            return ''
        # (the copy may also have started between the emission of the forced state and its delivery)
        if process.forced_state is not None and process.forced_state not in RUNNING_STATES and \
                process.state in RUNNING_STATES:
            if self.blind_forced.get(namespec):
                return ':state-forced-over-a-running-copy-unknown-to-the-forcer'
            if self.sighted_forced.get(namespec):
                return ':state-forced-for-a-given-up-request-while-a-copy-runs-elsewhere'
            # a copy spawned after (or at the instant of) a forced state emitted by another instance
            hosts = [i for i in w.live() if i.running_truth().get(namespec) in RUNNING_STATES]
            for t, forcer in self.forced_at.get(namespec, ()):
                if forcer != nick and any(self.spawned_at.get((h.nick, namespec), -1.0) >= t for h in hosts):
                    return ':state-forced-over-a-running-copy-unknown-to-the-forcer'
            return ''
        return ''

    def on_instance_state(self, inst, identifier, new_state):
        self.peer_view.setdefault((inst.nick, inst.inc), {})[identifier] = new_state.name
        peer = self.run.world.by_identifier.get(identifier)
        if new_state.name == 'CHECKING':
            # the incarnation of the peer whose snapshot is going to be taken
            self.admitted_inc[(inst.nick, inst.inc, peer)] = self.run.world.incs.get(peer, 0)
            self.snapshot_taken.discard((inst.nick, peer))
            # a fresh snapshot of that peer is going to be taken
            self.unpublished.pop((inst.nick, peer), None)
        elif new_state.name != 'CHECKED':
            self.snapshot_taken.discard((inst.nick, peer))

    def on_event(self, ev):
        w = self.run.world
        if ev['k'] == 'rpc_ret' and ev['method'] == 'supvisors.get_all_local_process_info' and ev['src'] != 'user':
            # the observer has just taken its snapshot of that peer (loaded when the notification is processed): what
            # that peer did not publish to it before this instant is in the snapshot
            self.snapshot_taken.add((ev['src'], ev['dst']))
            self.unpublished.pop((ev['src'], ev['dst']), None)
            return
        if ev['k'] == 'spawn':
            self.spawned_at[(ev['inst'], ev['namespec'])] = ev['t']
            return
        if ev['k'] == 'pub_dropped':
            # queued while the peer was seen active, dropped by publish() because it is not any more
            self.unpublished.setdefault((ev['dst'], ev['src']), set()).add(ev['namespec'])
            self.count('events_dropped_at_publication')
            return
        if ev['k'] != 'truth':
            return
        src = w.instances.get(ev['inst'])
        if src is None:
            return
        view = self.peer_view.get((src.nick, src.inc), {})
        for inst in w.live():
            if inst.nick != src.nick and view.get(inst.identifier, 'STOPPED') not in self.ACTIVE:
                # the source does not publish process events to a peer it does not see active
                self.unpublished.setdefault((inst.nick, src.nick), set()).add(ev['namespec'])
                self.count('events_not_published')
            elif (inst.nick, src.nick) in self.snapshot_taken and \
                    self.peer_view.get((inst.nick, inst.inc), {}).get(src.identifier) == 'CHECKING':
                # published, but the observer drops the events of a peer that is not yet CHECKED
                self.unpublished.setdefault((inst.nick, src.nick), set()).add(ev['namespec'])
                self.count('events_after_snapshot_before_admission')

    def on_tick_received(self, inst, status, event):
        w = self.run.world
        peer = w.by_identifier.get(status.identifier)
        key = (inst.nick, inst.inc, peer)
        peer_inc = w.incs.get(peer, 0)
        previous = self.tick_seen.get(key)
        if previous is not None and previous[0] != peer_inc and event['sequence_counter'] >= previous[1]:
            # a new incarnation whose first TICK received does not carry a lower counter than the last one of the
            # previous incarnation: the code cannot see this restart (C07 finding)
            self.undetectable.add(key)
            self.count('restarts_with_a_counter_not_lower')
        self.tick_seen[key] = (peer_inc, event['sequence_counter'])

    def mechanism(self, observer, namespec, identifiers):
        w = self.run.world
        oinst = w.instances.get(observer)
        for identifier in (identifiers or list(w.by_identifier)):
            peer = w.by_identifier.get(identifier)
            admitted = self.admitted_inc.get((observer, oinst.inc if oinst else 0, peer))
            if admitted is not None and peer != observer and admitted != w.incs.get(peer, 0) and \
                    (observer, oinst.inc if oinst else 0, peer) in self.undetectable:
                # the observer still holds the process table of a previous incarnation of that peer: its restart has
                # not been detected (C07 finding: TICK counter not lower after the restart)
                return ':restart-of-the-host-not-detected'
        for identifier in (identifiers or list(w.by_identifier)):
            if namespec in self.unpublished.get((observer, w.by_identifier.get(identifier)), ()):
                return ':event-lost-in-handshake-window'
        return ''

    def finish(self, run):
        w = run.world
        if not w.quiescent():
            # give the cluster a little more time to drain
            w.run_for(3 * TICK)
        if not w.quiescent():
            self.count('not_quiescent')
            return self.violations
        vws = views(w)
        comps, cliques = groups(w, vws)
        for comp, clique in zip(comps, cliques):
            if not clique:
                continue
            reports = {}
            for nick in comp:
                if vws[nick]['state'] not in ('DISTRIBUTION', 'OPERATION', 'CONCILIATION'):
                    continue
                try:
                    reports[nick] = {f"{p['application_name']}:{p['process_name']}": p
                                     for p in peek(w, nick, 'supvisors.get_all_process_info')}
                except Fault:
                    continue
            if not reports:
                continue
            self.count('groups_evaluated')
            flagged = {}
            for nick, procs in reports.items():
                seen_running = {i for i, s in vws[nick]['instance_states'].items() if s == 'RUNNING'}
                for namespec, p in procs.items():
                    self.count('process_views_compared')
                    listed = set(p['identifiers'])
                    truth = set()
                    for identifier in seen_running:
                        inst = w.instances.get(w.by_identifier.get(identifier))
                        if inst is None or not inst.alive:
                            continue
                        state = inst.running_truth().get(namespec)
                        if state in RUNNING_STATES or (state == ProcessStates.STOPPING and identifier in listed):
                            truth.add(identifier)
                    if listed != truth:
                        missing = truth - listed
                        kind = 'missing' if missing else 'stale'
                        mech = self.mechanism(nick, namespec, listed ^ truth)
                        if mech:
                            flagged[namespec] = mech
                        self.violate(f'C12/view-vs-truth:{kind}{mech}', f'{nick} lists {namespec} on '
                                     f'{sorted(w.by_identifier[i] for i in listed)} at quiescence (vt={vt(w)}) but '
                                     f'the Supervisors it sees RUNNING report it running on '
                                     f'{sorted(w.by_identifier[i] for i in truth)}', case=run.describe())
                    if truth:
                        self.count('running_views_compared')
                # a process that truly runs on an instance seen RUNNING and that the member does not report at all
                # (process added at run time: numprocs increased, group added again)
                for identifier in seen_running:
                    inst = w.instances.get(w.by_identifier.get(identifier))
                    if inst is None or not inst.alive:
                        continue
                    for namespec, state in inst.running_truth().items():
                        if state in RUNNING_STATES and namespec not in procs:
                            self.count('running_views_compared')
                            mech = self.mechanism(nick, namespec, {identifier})
                            self.violate(f'C12/view-vs-truth:unknown-process{mech}', f'{nick} does not report '
                                         f'{namespec} at all at quiescence (vt={vt(w)}) although it is {state} on '
                                         f'{inst.nick}, which it sees RUNNING', case=run.describe())
            nicks = sorted(reports)
            for other in nicks[1:]:
                for namespec, p in reports[nicks[0]].items():
                    q = reports[other].get(namespec)
                    if q is None:
                        continue
                    self.count('pairs_compared')
                    run_a, run_b = p['statecode'] in (10, 20, 30, 40), q['statecode'] in (10, 20, 30, 40)
                    if set(p['identifiers']) != set(q['identifiers']) or run_a != run_b or \
                            (run_a and p['statecode'] != q['statecode']):
                        mech = flagged[namespec] if namespec in flagged else \
                            (self.mechanism(nicks[0], namespec, set(p['identifiers']) | set(q['identifiers'])) or
                             self.mechanism(other, namespec, set(p['identifiers']) | set(q['identifiers'])))
                        if not mech and set(p['identifiers']) == set(q['identifiers']):
                            mech = self.forced_mechanism(nicks[0], namespec) or self.forced_mechanism(other, namespec)
                        self.violate(f'C12/disagreement{mech}', f'{nicks[0]} reports {namespec} {p["statename"]} on '
                                     f'{sorted(w.by_identifier[i] for i in p["identifiers"])} while {other} reports '
                                     f'{q["statename"]} on {sorted(w.by_identifier[i] for i in q["identifiers"])} '
                                     f'at quiescence (vt={vt(w)})', case=run.describe())
        return self.violations


# ---------------------------------------------------------------------------------------------------

class StopSequenceMonitor(Monitor):
    """ C09: stop sequences (application-level stop plans), stop targets, orderly restart / shutdown. """

    def __init__(self, tracker):
        Monitor.__init__(self)
        self.tracker = tracker

    def attach(self, run):
        Monitor.attach(self, run)
        self.tracker.listeners_stop.append(self.on_stop)
        run.world.listeners.append(self.on_event)
        self.orders = {}        # (target nick, target inc) -> [(vt, method, src)]
        self.reroutes = []
        self.final_states = {}  # (nick, inc) -> last published state
        self.first_closing = {}  # (nick, inc) -> first closing state published (RESTARTING / SHUTTING_DOWN)
        self.undelivered = {}   # (nick, inc) -> {peer nick: messages dropped when the instance stopped}
        self.stopping_since = {}
        self.stopped_at = {}
        run.world.on_hook('send_state_event', self.on_state)
        self.closing = None
        self.tracker.listeners_start.append(self.on_start_request)
        self.crashed_at = {}      # application -> time of the last crash of one of its processes (truth)
        self.closing_since = {}   # (nick, inc) -> time of its first closing state

    def on_start_request(self, inst, req):
        # orderly restart / shutdown: once an instance has published RESTARTING / SHUTTING_DOWN everything is being
        # stopped - it does not ask for any process to be started (a restart_application / restart_process whose start
        # half was still pending when the closing request arrived is dropped with the other jobs)
        self.count('start_requests_seen_by_the_closing_clause')
        state = self.final_states.get((inst.nick, inst.inc))
        if state in ('RESTARTING', 'SHUTTING_DOWN', 'FINAL'):
            app_name = req['namespec'].split(':')[0]
            if self.crashed_at.get(app_name, 0.0) >= self.closing_since.get((inst.nick, inst.inc), float('inf')):
                # a process of that application crashed during the closing phase: the running failure strategy is
                # another plan (FiniteStateMachine.on_process_state_event applies it in every state) - not judged here
                self.count('start_requests_during_closing_after_a_crash_not_judged')
                return
            self.violate('C09/start-request-during-closing', f"{inst.nick}, which has published {state}, asks "
                         f"{req['target_nick']} to start {req['namespec']} at vt={vt(self.run.world)}: the closing phase "
                         f"stops everything, in order, before the Supervisors are restarted / shut down",
                         case=self.run.describe())

    def stop_seq(self, namespec):
        app, prog = self.run.prog_of(namespec)
        return app.get('stop_sequence_eff', 0), prog.get('stop_sequence_eff', 0)

    def on_state(self, inst, payload):
        self.final_states[(inst.nick, inst.inc)] = payload['fsm_statename']
        if payload['fsm_statename'] in ('RESTARTING', 'SHUTTING_DOWN'):
            self.closing_since.setdefault((inst.nick, inst.inc), self.run.world.now)
        if payload['fsm_statename'] in ('RESTARTING', 'SHUTTING_DOWN'):
            self.first_closing.setdefault((inst.nick, inst.inc), payload['fsm_statename'])

    def still_active(self, namespec, nicks, since=0.0):
        """ Instances (live) where the process is truly running or stopping, and has been so without interruption
        since the plan was built (a process stopped by the plan and started again by somebody else is done). """
        tr, w = self.tracker, self.run.world
        return [n for n in nicks if w.instances[n].alive and
                tr.truth.get((n, namespec)) in (10, 20, 30, 40) and self.stopped_at.get((n, namespec), -1.0) < since]

    def given_up(self, sender, inc, namespec, since):
        """ The stop of that process has been given up on timeout (forced STOPPED published), by this plan or by
        an earlier one since the process entered STOPPING. """
        stopping_since = min([t for (n, ns), t in self.stopping_since.items() if ns == namespec] or [since])
        # Supervisor itself kills the process after stopwaitsecs: a stop abandoned before that is not a timeout
        wait = self.run.prog_of(namespec)[1].get('stopwaitsecs', 0) if namespec in self.run.procs else 0
        return any(f['namespec'] == namespec and f['t'] >= min(since, stopping_since) and f['state'] == 0
                   and f['t'] - min(since, stopping_since) >= wait - 0.01
                   for f in self.tracker.forced)

    def on_stop(self, inst, req):
        run, tr = self.run, self.tracker
        w = run.world
        namespec = req['namespec']
        app_name = namespec.split(':')[0]
        app_seq, seq = self.stop_seq(namespec)
        plan = req['plan']
        self.count('stop_emissions')
        where = f"{req['sender']} -> {req['target_nick']} for {namespec} at vt={vt(w)}"
        # 3. the target is an instance where the requester sees the process running
        try:
            info = peek(w, inst.nick, 'supvisors.get_process_info', namespec)[0]
            self.count('target_checks')
            if req['target'] not in info['identifiers']:
                self.violate('C09/stop-target-not-running', f'stop request {where}: the requester sees the process '
                             f"{info['statename']} on {info['identifiers']}", case=run.describe())
        except Fault:
            pass
        if not plan or not plan['pure']:
            return
        self.count('sequenced_stop_emissions')
        # 1. no process of the same application with a higher stop_sequence is still running or stopping
        for other, nicks in plan['running'].items():
            if other == namespec or other.split(':')[0] != app_name or other not in run.procs:
                continue
            oseq = self.stop_seq(other)[1]
            if oseq > seq:
                self.count('order_comparisons')
                active = self.still_active(other, nicks, plan['t'])
                if active and not self.given_up(req['sender'], req['inc'], other, plan['t']):
                    # the requester may have lost the host of that process: then it is not its concern any more
                    lost = all(tr.sender_state.get((req['sender'], req['inc'])) and
                               self.sees(inst, n) != 'RUNNING' for n in active)
                    if not lost:
                        # a process that the requester found already STOPPING (stopped by somebody else: no request
                        # of its own) and that it has since seen stopped is done, whatever happens to it afterwards
                        waited = [n for n in active
                                  if not any(r['sender'] == req['sender'] and r['inc'] == req['inc'] and
                                             r['namespec'] == other and r['target_nick'] == n and r['t'] >= plan['t']
                                             for r in tr.stops)
                                  and any(g[0] >= plan['t'] and g[1] in (0, 100, 200, 1000)
                                          for g in tr.received.get((req['sender'], req['inc'], n, other), ()))]
                        if waited:
                            self.count('processes_stopped_by_somebody_else_seen_stopped')
                            active = [n for n in active if n not in waited]
                            if not active:
                                continue
                        mech = ''
                        for n in active:
                            mine = [r for r in tr.stops if r['sender'] == req['sender'] and r['inc'] == req['inc'] and
                                    r['namespec'] == other and r['target_nick'] == n and r['t'] >= plan['t']]
                            if mine and tr.judged_on_older_event(mine[-1], (0, 100, 200, 1000)):
                                # the requester took a stopped-like event of an earlier cycle of that process, still in
                                # flight when it emitted its stop request, for the answer to that request
                                mech = ':request-judged-on-an-event-older-than-its-delivery'
                        self.violate('C09/process-order' + mech, f'stop request {where} (stop_sequence {seq}) while '
                                     f'{other} (stop_sequence {oseq}) is still {self.states(other, active)}',
                                     case=run.describe())
            elif oseq == seq and other != namespec:
                # 2. processes sharing a stop_sequence are asked together
                req.setdefault('peers', []).append(other)
        # application level (restart / shutdown): applications with a higher stop_sequence are done
        if plan['kind'] == 'all':
            for (nick, inc, oapp), oplan in list(tr.stop_epoch.items()):
                if nick != req['sender'] or inc != req['inc'] or oapp == app_name or oplan['t'] != plan['t']:
                    continue
                oapp_seq = run.model[oapp].get('stop_sequence_eff', 0)
                if oapp_seq > app_seq:
                    self.count('application_order_comparisons')
                    for other, nicks in oplan['running'].items():
                        if other not in run.procs:
                            continue
                        active = self.still_active(other, nicks, plan['t'])
                        if active and not self.given_up(req['sender'], req['inc'], other, plan['t']) and \
                                any(self.sees(inst, n) == 'RUNNING' for n in active):
                            mech = ''
                            asked = any(r['sender'] == req['sender'] and r['inc'] == req['inc'] and r['t'] >= plan['t']
                                        and r['namespec'].split(':')[0] == oapp for r in tr.stops)
                            if oplan['states'] and all(code == 40 for code in oplan['states'].values()) and not asked:
                                # nothing of that application was running for the requester when it built the plan,
                                # only processes left STOPPING (by a plan that an ELECTION aborted, by somebody else):
                                # the application is not part of the plan and nobody waits for them
                                mech = ':application-with-only-stopping-processes-left-out-of-the-plan'
                            self.violate('C09/application-order' + mech, f'stop request {where} (application stop_sequence '
                                         f'{app_seq}) while {other} of application {oapp} (stop_sequence {oapp_seq}) '
                                         f'is still {self.states(other, active)}', case=run.describe())

    def sees(self, inst, nick):
        w = self.run.world
        try:
            return peek(w, inst.nick, 'supvisors.get_instance_info', ident(w, nick))[0]['statename']
        except Fault:
            return None

    def states(self, namespec, nicks):
        return {n: self.tracker.truth.get((n, namespec)) for n in nicks}

    def on_event(self, ev):
        if ev['k'] == 'truth' and (ev.get('state') == 200 or (ev.get('state') == 100 and not ev.get('expected'))):
            self.crashed_at[ev['namespec'].split(':')[0]] = ev['t']
        if ev['k'] == 'stopping':
            # what the proxies of a stopping instance still had to deliver is dropped with them
            inst = self.run.world.instances.get(ev['inst'])
            if inst is not None:
                pending = {}
                for identifier, proxy in inst.supvisors.rpc_handler.proxy_server.proxies.items():
                    if proxy.fifo:
                        pending[self.run.world.by_identifier.get(identifier)] = len(proxy.fifo)
                self.undelivered[(ev['inst'], ev['inc'])] = pending
        if ev['k'] == 'truth':
            key = (ev['inst'], ev['namespec'])
            if ev['state'] == 40:
                self.stopping_since.setdefault(key, ev['t'])
            else:
                self.stopping_since.pop(key, None)
            if ev['state'] in (0, 100, 200, 1000):
                self.stopped_at[key] = ev['t']
        if ev['k'] == 'rpc_call':
            method = ev['method']
            if method in ('supervisor.restart', 'supervisor.shutdown'):
                w = self.run.world
                tinst = w.instances.get(ev['dst'])
                key = (ev['dst'], tinst.inc if tinst else 0)
                self.orders.setdefault(key, []).append((vt(w), method, ev['src']))
                # only after the Master has finished stopping everything (or given up)
                master = self.run.master_at_closing
                if master:
                    minst = w.instances.get(master)
                    if minst and minst.alive:
                        pending = [r for r in self.tracker.open_stops
                                   if r['sender'] == master and r['inc'] == minst.inc and r['plan']
                                   and r['plan']['kind'] == 'all' and not r.get('target_crashed')]
                        self.count('order_timing_checks')
                        if pending:
                            self.violate('C09/order-before-stops-ended', f"{method} delivered to {ev['dst']} at "
                                         f"vt={vt(w)} while the Master {master} still has stop jobs in progress "
                                         f"({[r['namespec'] for r in pending]})", case=self.run.describe())
            elif method in ('supvisors.restart', 'supvisors.shutdown') and ev['src'] != 'user':
                self.reroutes.append((ev['src'], ev['dst'], method))

    def finish(self, run):
        w = run.world
        tr = self.tracker
        # 2. processes sharing a stop_sequence were asked in the same dispatch
        by_plan = {}
        for req in tr.stops:
            plan = req['plan']
            if plan and plan['pure']:
                by_plan.setdefault((req['sender'], req['inc'], req['namespec'].split(':')[0], plan['n'], plan['t']),
                                   []).append(req)
        for key, reqs in by_plan.items():
            steps = {}
            for req in reqs:
                steps.setdefault(self.stop_seq(req['namespec'])[1], set()).add(req['step'])
            for seq, values in steps.items():
                self.count('same_sequence_groups')
                if len(values) > 1:
                    names = sorted({r['namespec'] for r in reqs if self.stop_seq(r['namespec'])[1] == seq})
                    self.violate('C09/same-sequence-not-together', f'{key[0]} asked the processes {names} sharing '
                                 f'stop_sequence {seq} to stop in {len(values)} different dispatches',
                                 case=run.describe())
        closing = run.closing
        if closing and closing.get('accepted'):
            self.count('closing_runs')
            kind = closing['kind']
            # the Master may still be stopping the applications when the run ends (long stopwaitsecs, processes that
            # never stop and whose stops are given up level after level): the final clauses cannot be judged yet
            unfinished = False
            minst = w.instances.get(closing['master'])
            if minst is not None and minst.alive and minst.inc == closing['incs'][closing['master']]:
                try:
                    state = peek(w, closing['master'], 'supvisors.get_supvisors_state')
                    unfinished = state['fsm_statename'] in ('RESTARTING', 'SHUTTING_DOWN') and state['stopping_jobs']
                except Fault:
                    pass
            if unfinished:
                self.count('closing_runs_not_finished_when_the_run_ends')
            # a second request issued before the first one reached the Master (re-routing in flight) may be the one
            # that is carried out: then every instance receives that kind
            second = closing.get('second')
            if second:
                self.count('closing_runs_with_a_second_request')
            # the request that is carried out is the one that reached the Master first (the first one may still be
            # on its way, re-routed by the instance that received it): what the Master first published says which
            carried = {'RESTARTING': 'restart', 'SHUTTING_DOWN': 'shutdown'}.get(
                self.first_closing.get((closing['master'], closing['incs'][closing['master']])), kind)
            if carried != kind and not (second and second['kind'] == carried):
                self.violate('C09/order-kind', f"the Master {closing['master']} carried out a {carried} after "
                             f"supvisors.{kind} on {closing['on']} (second request: {second})", case=run.describe())
            kinds_received = set()
            # every instance that was alive and in the Master group received exactly one order
            for nick in (closing['members'] if not unfinished else ()):
                inc = closing['incs'][nick]
                # orders of either kind: a second request (of any kind) received while the first one is being carried
                # out changes nothing
                got = [o for o in self.orders.get((nick, inc), [])
                       if o[1] in ('supervisor.restart', 'supervisor.shutdown')]
                inst_crashed = nick in closing.get('crashed', [])
                if inst_crashed:
                    continue
                self.count('exactly_once_checks')
                mech = ''
                master_key = (closing['master'], closing['incs'][closing['master']])
                if self.undelivered.get(master_key, {}).get(nick):
                    # the Master stopped its own Supervisor while publications to that instance were still queued
                    mech = ':master-left-before-its-publications-were-delivered'
                if len(got) != 1:
                    self.violate(f'C09/order-count:{len(got) if len(got) < 2 else "many"}{mech}',
                                 f'{nick} received {len(got)} supervisor.{kind} order(s) after supvisors.{kind} was '
                                 f"requested on {closing['on']} (Master {closing['master']}): {got}",
                                 case=run.describe())
                elif got[0][1] != 'supervisor.' + carried:
                    self.violate('C09/order-kind', f'{nick} received {got[0][1]} although the Master '
                                 f"{closing['master']} carries out a {carried} (supvisors.{kind} requested on "
                                 f"{closing['on']}, second request: {second})", case=run.describe())
                else:
                    kinds_received.add(got[0][1])
                if self.final_states.get((nick, inc)) != 'FINAL':
                    self.violate(f'C09/not-final{mech}', f'{nick} last published {self.final_states.get((nick, inc))} '
                                 f'instead of FINAL after supvisors.{kind}', case=run.describe())
            if len(kinds_received) > 1:
                self.violate('C09/order-kind', f'the instances received different orders {sorted(kinds_received)} after '
                             f"supvisors.{kind} on {closing['on']} then {closing.get('second')}", case=run.describe())
            if closing['on'] != closing['master'] and not closing.get('second'):
                routed = [r for r in self.reroutes if r[0] == closing['on'] and r[2] == 'supvisors.' + kind]
                self.count('reroute_checks')
                if len(routed) != 1 or routed[0][1] != closing['master']:
                    self.violate('C09/reroute', f"supvisors.{kind} requested on {closing['on']}: re-routed calls "
                                 f"{routed}, expected exactly one to the Master {closing['master']}",
                                 case=run.describe())
        return self.violations


# ---------------------------------------------------------------------------------------------------

class JobTerminationMonitor(Monitor):
    """ C10: start / stop jobs are reported in progress for a bounded number of ticks after the last request;
    a job given up leaves the process FATAL (start) or STOPPED (stop), with a reason, on every instance. """

    def __init__(self, tracker):
        Monitor.__init__(self)
        self.tracker = tracker

    def attach(self, run):
        Monitor.attach(self, run)
        run.on_tick.append(self.on_tick)
        run.world.listeners.append(self.on_event)
        self.tracker.listeners_forced.append(self.on_forced)
        self.created_at = {}   # namespec -> instant of its last creation at run time (numprocs increased, group added)
        run.world.on_hook('instance_state', self.on_invalidation)
        self.flag_since = {}     # (nick, inc, kind) -> vt since the flag is continuously reported
        self.reported = set()
        self.pending_forced = []
        progs = [p for a in run.model.values() for p in a['programs'].values()]
        retries = max(p.get('startretries', 1) for p in progs) + 1
        start_ticks = 2 + -(-max(p.get('startsecs', 1) for p in progs) // 5) + 1
        stop_ticks = 2 + -(-max(p.get('stopwaitsecs', 1) for p in progs) // 5) + 1
        eff = effective_options(run.scenario['options'])
        # a stop level made of processes that are already STOPPING emits no request: three levels are allowed for
        self.bound = {'start': start_ticks * retries + eff['inactivity_ticks'] + 6,
                      'stop': 3 * stop_ticks + eff['inactivity_ticks'] + 6}
        self.last_truth = {}
        self.left_running = {}
        self.state_since = {}
        self.has_wait_exit = any(p.get('wait_exit') for p in progs)

    def on_invalidation(self, inst, identifier, new_state):
        # the invalidation of an instance rewrites the entries of the processes it ran (and resets a forced state):
        # for the observer that is an event of those processes
        if new_state.name in ('STOPPED', 'ISOLATED'):
            for rec in self.pending_forced:
                rec['overtaken'] = True

    def last_request(self, inst, kind):
        pool = self.tracker.requests if kind == 'start' else self.tracker.stops
        # a new plan (user request, conciliation round, failure strategy) counts as a request even when every
        # process of it is already STOPPING and nothing has to be sent
        last = self.tracker.last_plan.get((inst.nick, inst.inc, kind))
        for req in reversed(pool):
            if req['sender'] == inst.nick and req['inc'] == inst.inc:
                return max(req['t'], last or req['t'])
        return last

    def on_tick(self, vws):
        w = self.run.world
        for inst in w.live():
            view = vws.get(inst.nick)
            if view is None:
                continue
            for kind, key in (('start', 'starting_jobs'), ('stop', 'stopping_jobs')):
                flagged = inst.identifier in view[key]
                fkey = (inst.nick, inst.inc, kind)
                if not flagged:
                    self.flag_since.pop(fkey, None)
                    continue
                since = self.flag_since.setdefault(fkey, w.now)
                last = self.last_request(inst, kind)
                ref = max(since, last or since)
                self.count('job_flag_observations')
                ticks = (w.now - ref) / TICK
                self.counters['max_ticks_in_progress'] = max(self.counters.get('max_ticks_in_progress', 0), int(ticks))
                if ticks > self.bound[kind] and not (kind == 'start' and self.waiting_exit(inst)):
                    mech = self.lost_exit(inst) if kind == 'start' else ''
                    self.reported.add((inst.nick, inst.inc))
                    self.violate(f'C10/{kind}-job-not-ended{mech}', f'{inst.nick} reports {key} for {ticks:.0f} ticks after '
                                 f'its last {kind} request (bound {self.bound[kind]}): open requests '
                                 f'{[(r["namespec"], r["target_nick"], r["resolved"]) for r in self.tracker.outstanding(inst.nick, inst.inc, kind)]}',
                                 case=self.run.describe())
                    self.flag_since[fkey] = w.now + 10 ** 6   # reported once
        # forced states are displayed everywhere until the next event of the process
        for rec in list(self.pending_forced):
            if w.now < rec['check_at']:
                continue
            self.pending_forced.remove(rec)
            if rec['overtaken']:
                continue
            sender = w.instances.get(rec['sender'])
            if sender is None or not sender.alive or sender.inc != rec['inc']:
                continue
            for inst in w.live():
                view = vws.get(inst.nick)
                if rec['audience'].get(inst.nick) != inst.inc:
                    continue
                if view is None or view['instance_states'].get(sender.identifier) != 'RUNNING' or \
                        vws[rec['sender']]['instance_states'].get(inst.identifier) != 'RUNNING' or \
                        view['state'] not in ('DISTRIBUTION', 'OPERATION', 'CONCILIATION'):
                    continue
                try:
                    info = peek(w, inst.nick, 'supvisors.get_process_info', rec['namespec'])[0]
                    if rec['target']:
                        inner = peek(w, inst.nick, 'supvisors.get_inner_process_info', rec['target'],
                                     rec['namespec'])[0]
                        if inner['event_time'] > rec['event_time']:
                            # newer information from the targeted instance has already arrived there: the forced
                            # state is legitimately dismissed (C11)
                            self.count('forced_state_dismissed_by_newer_info')
                            continue
                except Fault:
                    continue
                self.count('forced_state_views_checked')
                if info['statecode'] != rec['state'] and \
                        (rec['check_at'] - 2 * TICK) - self.created_at.get(rec['namespec'], -1e9) < TICK:
                    # the process had just been created at run time on some instance: its PROCESS_ADDED publication may
                    # reach this observer after the forced state, which it then ignores (process unknown to it yet)
                    self.count('forced_state_on_a_process_just_created_not_judged')
                    continue
                if info['statecode'] != rec['state']:
                    self.violate(f"C10/forced-state-not-reported:{rec['state']}", f"{rec['sender']} gave up "
                                 f"{rec['namespec']} at vt={rec['vt']} ({rec['reason']}) but {inst.nick} reports it "
                                 f"{info['statename']} two ticks later, with no event of that process in between",
                                 case=self.run.describe())

    def audience(self, inst):
        w = self.run.world
        try:
            infos = peek(w, inst.nick, 'supvisors.get_all_instances_info')
        except Fault:
            return {}
        out = {}
        for info in infos:
            nick = w.by_identifier.get(info['identifier'])
            other = w.instances.get(nick)
            if info['statename'] in ('CHECKED', 'RUNNING') and other is not None and other.alive:
                # ... and that have admitted the sender themselves (events of a peer not yet CHECKED are dropped)
                try:
                    back = peek(w, nick, 'supvisors.get_instance_info', inst.identifier)[0]['statename']
                except (Fault, IndexError):
                    continue
                if back in ('CHECKED', 'RUNNING'):
                    out[nick] = other.inc
        return out

    def check_premature(self, inst, rec):
        """ A job is only abandoned once the margin has elapsed: not while the process is truly STOPPING for less than
        stopwaitsecs (Supervisor kills it then), nor truly STARTING for less than startsecs. """
        w = self.run.world
        namespec = rec['namespec']
        target = w.by_identifier.get(rec['target'])
        if namespec not in self.run.procs or target is None:
            return
        prog = self.run.prog_of(namespec)[1]
        truth = self.tracker.truth.get((target, namespec))
        # what matters is what the requester knows: since when it has seen the process in that phase (events may be
        # lost or late, the process may have gone through other phases meanwhile)
        states = (40,) if rec['state'] == 0 else (10, 30)
        since = None
        for t, state, _ in reversed(self.tracker.received.get((inst.nick, inst.inc, target, namespec), [])):
            if state not in states:
                break
            since = t
        if since is None:
            return
        self.count('give_up_timing_checks')
        if rec['state'] == 0 and truth == 40 and w.now - since < prog.get('stopwaitsecs', 0) - 0.01:
            self.violate('C10/stop-given-up-before-stopwaitsecs',
                         f"{inst.nick} gave up the stop of {namespec} on {target} at vt={vt(w)} ({rec['reason']}) "
                         f"although it has been STOPPING for {round(w.now - since, 2)}s only (stopwaitsecs "
                         f"{prog.get('stopwaitsecs')})", case=self.run.describe())
        elif rec['state'] == 200 and truth == 10 and w.now - since < prog.get('startsecs', 0) - 0.01:
            mech = ''
            got = self.tracker.received.get((inst.nick, inst.inc, target, namespec), [])
            older = [r for r in self.tracker.requests if r['sender'] == inst.nick and r['inc'] == inst.inc and
                     r['namespec'] == namespec and r['t'] < since and
                     (w.now - r['t'] > self.bound['start'] * TICK or
                      any(r['t'] <= t < since and state == 20 for t, state, _ in got))]
            if prog.get('wait_exit') and older:
                # the command of a wait_exit program stays in the Starter until the exit; when the process is started
                # again meanwhile (Supervisor autorestart, user), its new STARTING phase is timed against the tick
                # counter of the original request (the requester saw it RUNNING after that request, or the request is
                # older than any start job may last)
                mech = ':wait-exit-command-timed-against-its-original-request'
            self.violate('C10/start-given-up-before-startsecs' + mech,
                         f"{inst.nick} gave up the start of {namespec} on {target} at vt={vt(w)} ({rec['reason']}) "
                         f"although it has been STARTING for {round(w.now - since, 2)}s only (startsecs "
                         f"{prog.get('startsecs')})", case=self.run.describe())

    def lost_exit(self, inst):
        """ Mechanism: the EXITED event of a wait_exit program was lost; its start job has no timeout. """
        run = self.run
        for namespec in run.procs:
            if not run.prog_of(namespec)[1].get('wait_exit'):
                continue
            try:
                info = peek(run.world, inst.nick, 'supvisors.get_process_info', namespec)[0]
            except Fault:
                continue
            # still listed as running (the displayed state may be a forced one)
            for identifier in info['identifiers']:
                nick = run.world.by_identifier.get(identifier)
                if self.tracker.truth.get((nick, namespec)) in (0, 100, 200):
                    return ':wait-exit-event-lost'
        return ''

    def waiting_exit(self, inst):
        """ Documented exception: a wait_exit program that is running and has not exited yet. """
        seen = set()
        for req in reversed(self.tracker.requests):
            if req['sender'] != inst.nick or req['inc'] != inst.inc or req['namespec'] in seen:
                continue
            seen.add(req['namespec'])
            if self.run.prog_of(req['namespec'])[1].get('wait_exit'):
                if self.tracker.truth.get((req['target_nick'], req['namespec'])) == 20:
                    return True
                # it has just exited (or its instance has just been lost): the requester learns it through the
                # event, or through the failure detection, within the usual margin
                left = self.left_running.get((req['target_nick'], req['namespec']))
                if left is not None and self.run.world.now - left < self.bound['start'] * TICK:
                    return True
        return False

    def on_forced(self, inst, rec):
        w = self.run.world
        self.check_premature(inst, rec)
        if not rec['reason']:
            self.violate('C10/forced-without-reason', f"{inst.nick} forced {rec['namespec']} to {rec['state']} "
                         f'without any reason')
        self.count('given_up_jobs')
        recent = self.last_truth.get(rec['namespec'], -1e9) > w.now - 2 * TICK or \
            any(f['namespec'] == rec['namespec'] and f['t'] > w.now - 2 * TICK and f is not rec
                for f in self.tracker.forced[-50:])
        for other in self.pending_forced:
            if other['namespec'] == rec['namespec']:
                other['overtaken'] = True   # a newer forced state takes over
        entry = {'sender': inst.nick, 'inc': inst.inc, 'namespec': rec['namespec'], 'state': rec['state'],
                 'target': rec['target'], 'event_time': rec['event_time'],
                 'reason': rec['reason'], 'vt': vt(w), 'check_at': w.now + 2 * TICK,
                 # an event produced shortly before may still be in flight and will legitimately take over
                 'overtaken': recent,
                 # who the forced state is published to: the instances the sender sees admitted at that moment (a
                 # later joiner loads the real states, forced states are not part of the snapshot)
                 'audience': self.audience(inst)}
        self.pending_forced.append(entry)

    def on_event(self, ev):
        if ev['k'] == 'truth':
            self.last_truth[ev['namespec']] = ev['t']
            self.state_since[(ev['inst'], ev['namespec'])] = ev['t']
            if ev['state'] == 20:
                self.left_running.pop((ev['inst'], ev['namespec']), None)
            else:
                self.left_running.setdefault((ev['inst'], ev['namespec']), ev['t'])
        if ev['k'] in ('truth', 'crash', 'boot'):
            for rec in self.pending_forced:
                if ev['k'] != 'truth' or ev['namespec'] == rec['namespec']:
                    rec['overtaken'] = True
        elif ev['k'] == 'hook' and ev['name'] in ('send_process_added_event', 'send_process_removed_event'):
            # a process removed from / created on an instance at run time (numprocs, group): its entries are rewritten,
            # a pending forced state of that process (or of its whole group) is overtaken like by an event
            payload = (ev.get('args') or [{}])[0] or {}
            if ev['name'] == 'send_process_added_event':
                self.created_at[f"{payload.get('group')}:{payload.get('name')}"] = ev['t']
            for rec in self.pending_forced:
                group, _, name = rec['namespec'].partition(':')
                if payload.get('group') == group and payload.get('name') in (name, '*'):
                    rec['overtaken'] = True

    def finish(self, run):
        # same bounded-progress clause, evaluated a last time at the end of the quiet period
        self.on_tick(views(run.world))
        return self.violations
