""" C05 - conflicts are detected and conciliated exactly as the strategy says. """
from monitors.lib_apps import Tracker
from monitors.lib_c05 import ConciliationMonitor
from workloads.apps import Run

PROPERTY = 'C05'
LEVEL = 'exploration'
RULE = ('generated clusters (2-4 instances) with generated managed / unmanaged applications distributed and running; '
        'duplicates created by direct supervisor.startProcess on other instances (one, or several at once inside one '
        'application, also while a conciliation is in progress) and by partitions that heal (auto_fence off); the six '
        'conciliation strategies; oracle: wrapper on conciliate_conflicts (the conflict set the Master acts on), every '
        'stop / start request emitted, published states, true process tables and spawn instants, status API of the '
        'Master once per tick - detection within 2 ticks, Master only, managed only, the copies asked to stop are '
        'exactly those the strategy designates (survivor by true spawn instants, ambiguity below 3 ticks accepted), '
        'nothing else is stopped, USER stops nothing, no conflict and OPERATION at the end (CONCILIATION kept with '
        'USER), RESTART starts one copy; non-trivial = at least one conciliation round; distinct = distinct '
        '(topology, strategies, distributions, actions) tuples')
ASSUMPTIONS = ['simulated transport and OS layer (DESIGN.md 2.1) are faithful',
               'a copy that ended by itself or whose instance was lost before the round closed is not expected to be '
               'asked to stop', 'end-of-run clauses only on quiescent, agreed groups']
FLOORS = {'quick': {'conciliation_rounds': 150, 'round_conflicts_evaluated': 150, 'stops_in_conciliation': 150,
                    'rounds_with_simultaneous_conflicts': 20, 'detection_samples': 3000,
                    'final_groups_evaluated': 200, 'pairs_of_copies_started_together': 50},
          'thorough': {'conciliation_rounds': 3000, 'round_conflicts_evaluated': 3000, 'stops_in_conciliation': 3000,
                       'rounds_with_simultaneous_conflicts': 400, 'detection_samples': 60000,
                       'final_groups_evaluated': 4000, 'pairs_of_copies_started_together': 800}}
COUNT = {'quick': 480, 'thorough': 9000}
BUDGET_S = {'quick': 55, 'thorough': 540}

KNOBS = {'n_min': 2, 'n_max': 4,
         'apps': {'n_apps': (1, 3), 'n_progs': (2, 4), 'seq_max': 2, 'startsecs': (0, 3), 'managed_p': 0.8,
                  'autorestart': ('false',)},
         'behaviours': ['normal'] * 6 + ['slow_stop'],
         'actions': ['dup', 'dup', 'multi_dup', 'multi_dup', 'multi_dup', 'partition', 'wait', 'dup_unmanaged',
                     'dup_unmanaged', 'dup_pair', 'dup_pair'],
         'n_actions': [1, 1, 2, 3, 4], 'fence': 'false', 'early_p': 0.1}


# an additional family: a duplicate appears while another instance than the Master drives a long start sequence
# (programs that take 15-30 s to start, restarted by a user request received by a non-Master): the Master, which has
# no job of its own, conciliates at once
SLAVE_KNOBS = {'n_min': 3, 'n_max': 4,
               'apps': {'n_apps': (2, 3), 'n_progs': (1, 3), 'seq_max': 2, 'startsecs': (15, 30), 'managed_p': 1.0,
                        'autorestart': ('false',)},
               'behaviours': ['normal'],
               'actions': ['restart_application', 'start_application'], 'then': ['dup', 'dup'],
               'n_actions': [1], 'gaps': [1.0, 3.0, 6.0], 'fence': 'false', 'early_p': 0.0, 'off_master_p': 1.0,
               'formation_ticks': 80}
SLAVE_COUNT = {'quick': 120, 'thorough': 2000}


# the general family again with slow handshakes (each XML-RPC of a handshake takes 0 - 3 s, L3 engine) and instance
# restarts: requests are emitted and answered while peers are being checked again
SLOW_KNOBS = dict(KNOBS, handshake_skew=[0.0, 0.3, 1.0, 2.0, 3.0], actions=KNOBS['actions'] + ['restart', 'restart'])


def plan(tier, seed):
    return [{'seed': seed * 1000003 + i} for i in range(COUNT[tier])] + \
        [{'seed': seed * 1000003 + 800000 + i, 'family': 'slave-at-work'} for i in range(SLAVE_COUNT[tier])] + \
        [{'seed': seed * 1000003 + 900000 + i, 'family': 'slow-handshake'} for i in range(COUNT[tier] // 8)]


def run_case(case):
    tracker = Tracker()
    mon = ConciliationMonitor(tracker)
    run = Run(case, {'slave-at-work': SLAVE_KNOBS, 'slow-handshake': SLOW_KNOBS}.get(case.get('family'), KNOBS),
              [tracker, mon])
    violations = run.execute()
    nontrivial = mon.counters.get('conciliation_rounds', 0) > 0
    return {'violations': violations, 'counters': run.counters,
            'signature': run.shape() if nontrivial else None, 'sample': run.describe()}
