""" C06 - running failure strategies are applied once, by the Master, with precedence.

L3 monitor: instance losses (acknowledged by the Master) and process crashes in the middle of application activity;
what the Master plans afterwards is read at the entry points of its Starter / Stopper (hooks) and compared with the
action the statement prescribes, computed from the rules model and the Master's own view just before the invalidation.
The handler entry points of every instance are wrapped as well: only the Master feeds its RunningFailureHandler. """
from monitors.lib import Monitor
from monitors.lib_apps import RUN_CODES
from vsim.cluster import TICK, Fault, peek, views, vt

PRECEDENCE = ['STOP_APPLICATION', 'RESTART_APPLICATION', 'RESTART_PROCESS', 'CONTINUE']


class RunningFailureMonitor(Monitor):

    def __init__(self, tracker):
        Monitor.__init__(self)
        self.tracker = tracker

    def attach(self, run):
        Monitor.attach(self, run)
        w = run.world
        self.plans = []        # (t, nick, inc, kind, name)
        self.losses = []
        self.crashes = []
        self.peer_state = {}   # (nick, inc, identifier) -> state name
        self.truth_log = {}    # namespec -> [(t, nick, state)]
        w.on_hook('instance_state', self.on_instance_state)
        w.on_hook('starter_start_process', lambda inst, strategy, process, *a, **k:
                  self.plan(inst, 'start_process', process.namespec))
        w.on_hook('starter_start_application', lambda inst, strategy, application, *a, **k:
                  self.plan(inst, 'start_application', application.application_name))
        w.on_hook('stopper_stop_application', lambda inst, application, *a, **k:
                  self.plan(inst, 'stop_application', application.application_name))
        w.on_hook('stopper_stop_process', lambda inst, process, *a, **k:
                  self.plan(inst, 'stop_process', process.namespec))
        w.listeners.append(self.on_event)
        self.last_master_change = 0.0
        self.elections = []
        self.closing_seen = {}
        self.ends = []
        self.fsm_seen = {}
        self.master_seen = {}
        w.on_hook('send_state_event', self.on_state)
        w.on_hook('fsm_process_event', self.on_process_event_received)

    def on_state(self, inst, payload):
        key = (inst.nick, inst.inc)
        value = (payload.get('master_identifier'), payload['fsm_statename'] in ('OPERATION', 'CONCILIATION'))
        if self.master_seen.get(key) != value:
            self.master_seen[key] = value
            self.last_master_change = self.run.world.now
        if payload['fsm_statename'] in ('RESTARTING', 'SHUTTING_DOWN'):
            self.closing_seen.setdefault((inst.nick, inst.inc, payload['fsm_statename']), self.run.world.now)
        if payload['fsm_statename'] == 'ELECTION' and self.fsm_seen.get(key) != 'ELECTION':
            self.elections.append((self.run.world.now, inst.nick, inst.inc))
        self.fsm_seen[key] = payload['fsm_statename']

    def plan(self, inst, kind, name):
        self.plans.append((self.run.world.now, inst.nick, inst.inc, kind, name))
        self.count('plans_observed')

    # -- handler entry points -----------------------------------------------------------------------
    def on_event(self, ev):
        w = self.run.world
        if ev['k'] == 'boot':
            inst = w.instances[ev['inst']]
            handler = inst.supvisors.failure_handler
            for name in ('add_default_job', 'add_job'):
                self.wrap(inst, handler, name)
        elif ev['k'] in ('crash', 'exit'):
            self.ends.append((ev['t'], ev['inst'], ev['inc']))
        elif ev['k'] == 'truth':
            self.truth_log.setdefault(ev['namespec'], []).append((ev['t'], ev['inst'], ev['state']))
            if ev['state'] in (100, 200) and not ev.get('expected', True) or ev['state'] == 200:
                self.on_crash(ev)

    def wrap(self, inst, handler, name):
        original = getattr(handler, name)
        monitor = self

        def wrapper(*args, **kw):
            monitor.on_handler_call(inst, name, args)
            return original(*args, **kw)
        setattr(handler, name, wrapper)

    def on_handler_call(self, inst, name, args):
        w = self.run.world
        self.count('handler_calls')
        try:
            master = peek(w, inst.nick, 'supvisors.get_master_identifier').get('identifier', '')
        except Fault:
            master = ''
        if master != inst.identifier:
            process = args[-1]
            self.violate('C06/non-master-handles-failure',
                         f'{inst.nick} feeds its RunningFailureHandler ({name} {process.namespec}) at vt={vt(w)} while '
                         f'its Master is {w.by_identifier.get(master)}', case=self.run.describe())

    # -- instance loss ------------------------------------------------------------------------------
    def on_instance_state(self, inst, identifier, new_state):
        w = self.run.world
        key = (inst.nick, inst.inc, identifier)
        old = self.peer_state.get(key, 'STOPPED')
        new = new_state.name
        self.peer_state[key] = new
        if old != 'FAILED' or new not in ('STOPPED', 'ISOLATED') or identifier == inst.identifier:
            return
        try:
            master = peek(w, inst.nick, 'supvisors.get_master_identifier').get('identifier', '')
            state = peek(w, inst.nick, 'supvisors.get_supvisors_state')['fsm_statename']
            infos = peek(w, inst.nick, 'supvisors.get_all_process_info')
        except Fault:
            return
        if master != inst.identifier:
            self.count('losses_seen_by_non_master')
            return
        if state not in ('DISTRIBUTION', 'OPERATION', 'CONCILIATION'):
            self.count('losses_outside_working_states')
            return
        model = self.run.model
        busy_apps = set(inst.supvisors.starter.get_application_job_names()) | \
            set(inst.supvisors.stopper.get_application_job_names())
        lost, survivors, ambiguous = {}, {}, set()
        for p in infos:
            app = p['application_name']
            namespec = f"{app}:{p['process_name']}"
            if not model.get(app, {}).get('managed') or namespec not in self.run.procs:
                continue
            # NOTE: 'identifiers' is where the process runs; the displayed state may be a forced one (FATAL shown over a
            #       running process)
            if p['identifiers']:
                if p['identifiers'] == [identifier]:
                    if p['statecode'] != 40:
                        lost.setdefault(app, []).append(namespec)
                    else:
                        # a process that was being stopped there: whether it still counts as 'running only there' is
                        # not said; the application is not judged
                        ambiguous.add(app)
                else:
                    survivors.setdefault(app, []).append(namespec)
        previous = self.losses[-1] if self.losses else None
        if previous and previous['t'] == w.now and previous['master'] == inst.nick and previous['inc'] == inst.inc:
            # several instances acknowledged lost in the same periodic task: one set of failures
            for app, names in lost.items():
                previous['lost'].setdefault(app, []).extend(names)
            previous['survivors'] = survivors
            previous['busy_apps'] = sorted(set(previous['busy_apps']) | ambiguous)
            previous['lost_instance'] += '+' + w.by_identifier.get(identifier)
            self.count('lost_processes', sum(len(v) for v in lost.values()))
            self.count('losses_merged')
            return
        # the processes that have a stop command (requested or still planned) towards the lost instance in the Stopper
        # of the Master: they are left to that job; a restart queued behind the stop (restart_application /
        # restart_process) is part of that job
        stop_planned, restart_pending = {}, set()
        try:
            stopper = inst.supvisors.stopper
            jobs = list(stopper.current_jobs.values()) + [j for seq in stopper.planned_jobs.values()
                                                          for j in seq.values()]
            for job in jobs:
                for command in list(job.current_jobs) + [c for group in job.planned_jobs.values() for c in group]:
                    if command.identifier == identifier:
                        stop_planned.setdefault(job.application_name, set()).add(command.process.namespec)
            restart_pending = set(stopper.application_start_requests) | set(stopper.process_start_requests)
        except Exception:
            stop_planned = {}
        record = {'t': w.now, 'master': inst.nick, 'inc': inst.inc, 'lost_instance': w.by_identifier.get(identifier),
                  'state': state, 'lost': lost, 'busy_apps': sorted(busy_apps | ambiguous), 'survivors': survivors,
                  'busy_anything': bool(busy_apps), 'stop_planned': stop_planned,
                  'restart_pending': sorted(restart_pending)}
        self.losses.append(record)
        self.count('losses_acknowledged_by_master')
        if busy_apps:
            self.count('losses_acknowledged_while_jobs_in_progress')
        self.count('lost_processes', sum(len(v) for v in lost.values()))

    def expected_action(self, record, app):
        """ One action per application, by precedence; RESTART_PROCESS is promoted when the application is left fully
        stopped and the process belongs to its start sequence. """
        run = self.run
        strategies = {}
        for namespec in record['lost'][app]:
            prog = run.prog_of(namespec)[1]
            strategy = prog.get('running_failure_eff', 'CONTINUE')
            if strategy == 'RESTART_PROCESS' and not record['survivors'].get(app) and prog.get('start_sequence', 0) > 0:
                strategy = 'RESTART_APPLICATION'
            if strategy in ('RESTART', 'SHUTDOWN'):
                # whole-Supvisors strategies are only specified for a process crash, not for an instance loss
                continue
            strategies[namespec] = strategy
        if not strategies:
            return None, strategies
        action = min(strategies.values(), key=PRECEDENCE.index)
        return action, strategies

    # -- process crash ------------------------------------------------------------------------------
    def on_crash(self, ev):
        namespec = ev['namespec']
        if namespec not in self.run.procs:
            return
        app, prog = self.run.prog_of(namespec)
        if not app['managed']:
            return
        strategy = prog.get('running_failure_eff', 'CONTINUE')
        if strategy not in ('STOP_APPLICATION', 'RESTART_APPLICATION', 'RESTART', 'SHUTDOWN'):
            return
        history = self.truth_log.get(namespec, [])
        # a crash of a process that was running (not a start failure)
        previous = [s for t, n, s in history[:-1] if n == ev['inst']]
        if not previous or previous[-1] != 20:
            return
        # another copy still runs (a conflict): for Supvisors the process has not crashed
        w = self.run.world
        if any(i.nick != ev['inst'] and i.running_truth().get(namespec) in RUN_CODES for i in w.live()):
            self.count('crashes_of_one_copy_among_several')
            return
        record = {'t': ev['t'], 'namespec': namespec, 'on': ev['inst'], 'strategy': strategy, 'state': ev['state'],
                  'learnt': {}}
        self.crashes.append(record)
        self.count('running_crashes_with_application_strategy')
        if strategy in ('RESTART', 'SHUTDOWN'):
            # who is the Master now, if everybody agrees and it is at work
            w = self.run.world
            try:
                vws = views(w)
            except Fault:
                return
            masters = {v['master'] for v in vws.values()}
            if len(masters) == 1 and all(v['state'] in ('OPERATION', 'CONCILIATION') for v in vws.values()):
                mnick = w.by_identifier.get(next(iter(masters)))
                minst = w.instances.get(mnick)
                if minst is not None and minst.alive and mnick in vws:
                    record['master'] = (mnick, minst.inc)
                    self.count('crashes_with_supvisors_strategy')

    def on_process_event_received(self, inst, status, event):
        """ The instant at which an instance learns a crash: if the process is, by then, running again somewhere
        (started by somebody else while the event was on its way), there is no failure left for it to handle. """
        if event.get('state') not in (100, 200) or 'forced' in event:
            return
        w = self.run.world
        namespec = f"{event['group']}:{event['name']}"
        source = w.by_identifier.get(status.identifier)
        for crash in self.crashes:
            if crash['namespec'] != namespec or crash['on'] != source or (inst.nick, inst.inc) in crash['learnt']:
                continue
            if w.now - crash['t'] > 6 * TICK:
                continue
            again = [i.nick for i in w.live() if i.running_truth().get(namespec) in RUN_CODES]
            crash['learnt'][(inst.nick, inst.inc)] = (w.now, again)

    def superseded(self, crash, mnick, minc):
        learnt = crash['learnt'].get((mnick, minc))
        if learnt and learnt[1]:
            self.count('crashes_learnt_after_the_process_was_started_again')
            return True
        return False

    # -- end ----------------------------------------------------------------------------------------
    def plans_of(self, nick, inc, kind, name, since, until=None):
        return [p for p in self.plans if p[1] == nick and p[2] == inc and p[3] == kind and p[4] == name
                and p[0] >= since and (until is None or p[0] <= until)]

    def finish(self, run):
        w = run.world
        for crash in self.crashes:
            if crash['strategy'] in ('RESTART', 'SHUTDOWN'):
                self.evaluate_supvisors_strategy(run, crash)
        if not run.outcome.get('settled'):
            self.count('runs_not_settled')
            return self.violations
        vws = views(w)
        last_action = max([a['vt'] for a in run.actions] or [0.0]) + 1_700_000_000.0
        for record in self.losses:
            master = w.instances.get(record['master'])
            if master is None or not master.alive or master.inc != record['inc'] or \
                    vws[record['master']]['master'] != master.identifier:
                self.count('losses_master_changed')
                continue
            if w.now - record['t'] < 3 * TICK:
                continue
            self.check_left_to_stop_job(run, record)
            for app, names in record['lost'].items():
                if app in record['busy_apps']:
                    self.count('lost_in_application_with_jobs')
                    continue
                action, strategies = self.expected_action(record, app)
                if action is None:
                    continue
                self.count('applications_evaluated_after_loss')
                self.count('applications_evaluated_' + action)
                nick, inc, t = record['master'], record['inc'], record['t']
                where = (f"instance {record['lost_instance']} lost, acknowledged by the Master {nick} in "
                         f"{record['state']} at vt={round(t - 1_700_000_000.0, 3)} (jobs in progress for "
                         f"{record['busy_apps']}); {app} lost {strategies}")
                stop_app = self.plans_of(nick, inc, 'stop_application', app, t)
                start_app = self.plans_of(nick, inc, 'start_application', app, t)
                # entering ELECTION (e.g. a new instance has been admitted) aborts every job, those of the failure
                # handler included
                mech = ''
                for te, n, i in self.elections:
                    if n != nick or i != inc or te < t:
                        continue
                    # either the ELECTION was decided in the very periodic task that acknowledged the loss (the
                    # handler was never fed), or the handler had begun to act (a stop plan for the application) and the
                    # ELECTION aborted the rest
                    acted = [p for p in self.plans if p[1] == nick and p[2] == inc and t <= p[0] <= te and
                             p[3] in ('stop_application', 'stop_process') and (p[4] == app or p[4].split(':')[0] == app)]
                    if te - t < 1e-6 or acted:
                        mech = ':election-after-the-loss-aborted-the-failure-handling'
                if action == 'STOP_APPLICATION':
                    if not record['survivors'].get(app):
                        # nothing of the application is left running
                        self.count('stop_application_nothing_left')
                    elif not stop_app:
                        self.violate('C06/loss-not-handled:STOP_APPLICATION' + mech, f'{where}: no stop of the '
                                     f'application has been planned by the Master', case=run.describe())
                    elif start_app and last_action < t and not self.crashed_since(app, t):
                        self.violate('C06/stop-application-restarted', f'{where}: the application has been started '
                                     f'again by the Master', case=run.describe())
                elif action == 'RESTART_APPLICATION':
                    # also through the automatic distribution that follows an ELECTION
                    restarted = [r for r in self.tracker.requests if r['sender'] == nick and r['inc'] == inc
                                 and r['t'] >= t and r['namespec'].split(':')[0] == app]
                    if not start_app and not restarted:
                        self.violate('C06/loss-not-handled:RESTART_APPLICATION' + mech, f'{where}: no restart of the '
                                     f'application has been planned by the Master', case=run.describe())
                elif action == 'RESTART_PROCESS':
                    for namespec, strategy in strategies.items():
                        if strategy != 'RESTART_PROCESS':
                            continue
                        starts = self.plans_of(nick, inc, 'start_process', namespec, t)
                        restarted = [r for r in self.tracker.requests if r['sender'] == nick and r['inc'] == inc
                                     and r['t'] >= t and r['namespec'] == namespec]
                        if not starts and not start_app and not restarted:
                            self.violate('C06/loss-not-handled:RESTART_PROCESS' + mech, f'{where}: no restart of {namespec} '
                                         f'has been planned by the Master', case=run.describe())
                        elif len(starts) > 1 and last_action < t and not self.crashed_since(app, t):
                            events = [e for e in self.truth_log.get(namespec, []) if e[0] > t]
                            if not any(s in (100, 200, 0) for _, _, s in events):
                                self.violate('C06/restart-process-applied-twice', f'{where}: {len(starts)} restarts '
                                             f'of {namespec} planned by the Master', case=run.describe())
                        stopped_later = [p for p in self.plans if p[0] > t and p[3] in ('stop_application', 'stop_process')
                                         and (p[4] == app or p[4].split(':')[0] == app)]
                        if last_action < t and not self.crashed_since(app, t) and w.now - t > 12 * TICK and \
                                not stopped_later and record is self.losses[-1]:
                            self.check_running_once(run, record, namespec, where)
                else:
                    window = [p for p in self.plans if p[1] == nick and p[2] == inc and t < p[0] <= t + 3 * TICK
                              and (p[4] == app or p[4].split(':')[0] == app)]
                    user = [a for a in run.actions
                            if t - TICK <= a['vt'] + 1_700_000_000.0 <= t + 3 * TICK]
                    if window and not user and not self.crashed_since(app, t - TICK):
                        self.violate('C06/continue-but-acted', f'{where}: the Master planned {window[:4]} although '
                                     f'the strategy is CONTINUE', case=run.describe())
        for crash in self.crashes:
            self.evaluate_crash(run, crash, vws)
        return self.violations

    def check_left_to_stop_job(self, run, record):
        """ A process that had a stop job planned when its instance was lost is left to that job: the Master starts
        neither the process nor its application again on its own. """
        nick, inc, t = record['master'], record['inc'], record['t']
        if record is not self.losses[-1]:
            return
        for app, names in record.get('stop_planned', {}).items():
            if app in record['restart_pending'] or self.crashed_since(app, t - TICK):
                continue
            user = [a for a in run.actions if a['vt'] + 1_700_000_000.0 >= t - TICK and
                    a['kind'] in ('start_application', 'restart_application', 'start_process', 'restart_process',
                                  'restart_sequence', 'restart', 'crash')]
            if user:
                continue
            for namespec in sorted(names):
                if namespec not in run.procs:
                    continue
                self.count('lost_processes_with_a_stop_job_checked')
                # other processes of the application lost at the same time without a stop job: an application-level
                # action may be theirs
                others = [ns for ns in record['lost'].get(app, []) if ns not in names]
                starts = [p for p in self.plans_of(nick, inc, 'start_process', namespec, t) +
                          ([] if others else self.plans_of(nick, inc, 'start_application', app, t))
                          if p[0] <= t + 12 * TICK]
                if starts:
                    self.violate('C06/failure-handled-although-a-stop-job-was-planned',
                                 f"instance {record['lost_instance']} lost, acknowledged by the Master {nick} at "
                                 f"vt={round(t - 1_700_000_000.0, 3)} while its Stopper had a stop command for "
                                 f"{namespec} there (strategy "
                                 f"{run.prog_of(namespec)[1].get('running_failure_eff', 'CONTINUE')}): the Master then "
                                 f"planned {[(round(p[0] - 1_700_000_000.0, 3), p[3], p[4]) for p in starts]}",
                                 case=run.describe())

    def crashed_since(self, app, t):
        return any(c['namespec'].split(':')[0] == app and c['t'] >= t for c in self.crashes) or \
            any(ns.split(':')[0] == app and any(e[0] >= t and e[2] in (100, 200) for e in log)
                for ns, log in self.truth_log.items())

    def check_running_once(self, run, record, namespec, where):
        w = run.world
        holders = [i.nick for i in w.live() if i.running_truth().get(namespec) in RUN_CODES]
        self.count('restart_process_outcomes_checked')
        if len(holders) > 1:
            self.violate('C06/restarted-more-than-once', f'{where}: at the end {namespec} runs on {holders}',
                         case=run.describe())
        elif not holders:
            try:
                info = peek(w, record['master'], 'supvisors.get_process_info', namespec)[0]
            except Fault:
                return
            if info['statecode'] != 200:
                self.violate('C06/not-restarted-nor-fatal', f"{where}: at the end {namespec} runs nowhere and the "
                             f"Master reports it {info['statename']}", case=run.describe())

    def evaluate_supvisors_strategy(self, run, crash):
        """ RESTART / SHUTDOWN: the Master, if it lived on, has published RESTARTING / SHUTTING_DOWN shortly after. """
        w = run.world
        if 'master' not in crash:
            return
        mnick, minc = crash['master']
        expected = 'RESTARTING' if crash['strategy'] == 'RESTART' else 'SHUTTING_DOWN'
        lost = [t for t, nick, inc in self.ends if nick == mnick and inc == minc and t < crash['t'] + 3 * TICK
                and self.closing_seen.get((mnick, minc, expected), 1e18) > t]
        if lost or any(l['t'] >= crash['t'] - 3 * TICK and l['t'] <= crash['t'] + 3 * TICK for l in self.losses):
            self.count('crashes_not_evaluated')
            return
        if w.now - crash['t'] < 4 * TICK or self.superseded(crash, mnick, minc):
            return
        self.count('supvisors_strategy_crashes_evaluated')
        seen = self.closing_seen.get((mnick, minc, expected))
        other = 'SHUTTING_DOWN' if expected == 'RESTARTING' else 'RESTARTING'
        if seen is None and self.closing_seen.get((mnick, minc, other)) is None:
            self.violate(f"C06/crash-not-handled:{crash['strategy']}",
                         f"{crash['namespec']} (running, strategy {crash['strategy']}) crashed on {crash['on']} at "
                         f"vt={round(crash['t'] - 1_700_000_000.0, 3)}: the Master {mnick} never published {expected}",
                         case=run.describe())

    def evaluate_crash(self, run, crash, vws):
        w = run.world
        if crash['strategy'] in ('RESTART', 'SHUTDOWN'):
            return
        # who was the Master then is who is the Master now, if nothing changed
        masters = {v['master'] for v in vws.values()}
        if len(masters) != 1:
            return
        mnick = w.by_identifier.get(next(iter(masters)))
        master = w.instances.get(mnick)
        if master is None or not master.alive:
            return
        # the Master must have been there, in a working state, for the whole period
        if any(loss['t'] >= crash['t'] - 3 * TICK for loss in self.losses) or self.master_changed_since(crash['t']):
            self.count('crashes_not_evaluated')
            return
        if self.superseded(crash, mnick, master.inc):
            return
        app = crash['namespec'].split(':')[0]
        t = crash['t']
        self.count('crashes_evaluated')
        kind = 'stop_application' if crash['strategy'] == 'STOP_APPLICATION' else 'start_application'
        plans = self.plans_of(mnick, master.inc, kind, app, t - 0.001)
        forced = [f for f in self.tracker.forced if f['namespec'] == crash['namespec']]
        if not plans and not forced and not self.explained_by_user(run, app, t):
            self.violate(f"C06/crash-not-handled:{crash['strategy']}",
                         f"{crash['namespec']} (running) crashed on {crash['on']} at "
                         f"vt={round(t - 1_700_000_000.0, 3)} (state {crash['state']}): no {kind} of {app} planned by "
                         f'the Master {mnick} afterwards', case=run.describe())

    def master_changed_since(self, t):
        return self.last_master_change >= t - 3 * TICK

    def explained_by_user(self, run, app, t):
        """ The user stopped / restarted the application around the crash: the exit is part of that. """
        return any(abs(a['vt'] + 1_700_000_000.0 - t) < 6 * TICK and
                   a['kind'] in ('stop_application', 'restart_application', 'stop_process', 'restart_process',
                                 'restart_sequence', 'burst', 'crash', 'restart')
                   for a in run.actions)
