""" C08 - after disturbances the cluster returns to OPERATION; nobody stays parked. """
from monitors.lib import ProgressMonitor
from workloads.membership import Run

PROPERTY = 'C08'
LEVEL = 'exploration'
RULE = ('generated clusters and fault scripts as for C01, with disturbances triggered by observed Supvisors states '
        '(SYNCHRONIZATION / ELECTION / DISTRIBUTION / OPERATION / CONCILIATION of the Master, of the target or of '
        'anybody), late joiners and process kills; oracle: every evaluated group is in OPERATION (CONCILIATION '
        'with the USER strategy) with its Master and without jobs within 2K ticks after the last disturbance; '
        'non-trivial = at least one effective disturbance; distinct = distinct (size, nodes, synchro options, '
        'failure strategy, auto_fence, core, schedule profile, disturbance kinds, late joiner) tuples')
ASSUMPTIONS = ['bounded-progress restatement of the liveness claim: K = ceil(synchro_timeout/5) + '
               'inactivity_ticks + 12 ticks, verdict at 2K', 'supvisors_failure_strategy SHUTDOWN excluded',
               'groups whose synchronization condition cannot be met are not evaluated']
FLOORS = {'quick': {'groups_evaluated': 150}, 'thorough': {'groups_evaluated': 3000}}
COUNT = {'quick': 360, 'thorough': 8000}
BUDGET_S = {'quick': 55, 'thorough': 540}

KNOBS = {'n_min': 2, 'n_max': 5, 'late_p': 0.3, 'trigger_p': 0.6, 'crash_on_request_p': 0.08,
         'kinds': ['crash', 'restart', 'restart', 'partition', 'cutlink', 'crash_master', 'restart_master',
                   'proc_kill', 'dup', 'dup'],
         'apps': {'n_apps': (1, 3), 'n_progs': (1, 3), 'startsecs': (0, 8)}}


# a family with slow handshakes (each of its XML-RPCs takes 0 - 3 s): what a handshake has read of the peer is
# delivered after the newer publications of that peer
SLOW_KNOBS = dict(KNOBS, handshake_skew=[0.0, 0.3, 1.0, 2.0, 3.0], late_p=0.5,
                  kinds=['restart', 'restart', 'restart_master', 'cutlink', 'cutlink', 'crash'])


def plan(tier, seed):
    return [{'seed': seed * 1000003 + i} for i in range(COUNT[tier])] + \
        [{'seed': seed * 1000003 + 800000 + i, 'family': 'slow-handshake'} for i in range(COUNT[tier] // 3)]


def run_case(case):
    mon = ProgressMonitor()
    run = Run(case, SLOW_KNOBS if case.get('family') == 'slow-handshake' else KNOBS, [mon])
    violations = run.execute()
    nontrivial = any(not d.get('noop') for d in run.disturbances)
    return {'violations': violations, 'counters': run.counters,
            'signature': run.shape() if nontrivial else None, 'sample': run.describe()}
