""" C13 on real histories (L3): isolations produced by auto_fence after crashes / partitions / one-way link cuts and by
option mismatches at the handshake, in clusters of real instances.

Clauses: permanence (ISOLATED has no successor while the observer lives), silence (no XML-RPC from the observer to an
isolated peer later than one tick after the isolation), reciprocity at the handshake (a peer whose strategies differ,
or that has had the observer ISOLATED since before the CHECKING phase began, is never CHECKED), non-interference
(forged messages attributed to an isolated peer leave the full status snapshot of the observer unchanged). """
import json

from monitors.lib import Monitor
from vsim.cluster import TICK, status_snapshot, snapshot_diff, vt
from vsim.gen import effective_options
from vsim.l2 import PUBLICATION, NOTIFICATION, AUTH_CODES

STRATEGY_OPTIONS = ('auto_fence', 'starting_strategy', 'conciliation_strategy', 'supvisors_failure_strategy')


class IsolationMonitor(Monitor):

    def attach(self, run):
        Monitor.attach(self, run)
        w = run.world
        self.state = {}          # (observer nick, inc, peer identifier) -> state name
        self.isolated_at = {}    # (observer nick, inc, peer identifier) -> time
        self.checking_at = {}    # (observer nick, inc, peer identifier) -> time of the entry in CHECKING
        self.rng = run.rng
        w.on_hook('instance_state', self.on_instance_state)
        w.listeners.append(self.on_event)
        w.at(w.now + 2 * TICK, self.inject)

    def options_of(self, nick):
        w = self.run.world
        opts = dict(self.run.scenario['options'])
        opts.update(w.spec_of(nick).get('options', {}))
        eff = effective_options(opts)
        return {'auto_fence': opts.get('auto_fence', 'false'),
                'starting_strategy': opts.get('starting_strategy', 'CONFIG'),
                'conciliation_strategy': opts.get('conciliation_strategy', 'USER'),
                'supvisors_failure_strategy': eff['failure']}

    def on_instance_state(self, inst, identifier, new_state):
        w = self.run.world
        key = (inst.nick, inst.inc, identifier)
        old, new = self.state.get(key, 'STOPPED'), new_state.name
        self.state[key] = new
        peer = w.by_identifier.get(identifier)
        if old == 'ISOLATED':
            self.violate('C13/isolation-not-permanent', f'{inst.nick}: peer {peer} goes ISOLATED -> {new} at '
                         f'vt={vt(w)}', case=self.run.describe())
        if new == 'CHECKING':
            self.checking_at[key] = w.now
        elif new == 'ISOLATED':
            self.isolated_at[key] = w.now
            self.count('isolations')
            self.count('isolations_at_handshake' if old == 'CHECKING' else 'isolations_by_fencing')
        elif new == 'CHECKED':
            self.count('admissions')
            mine, theirs = self.options_of(inst.nick), self.options_of(peer)
            if mine != theirs:
                self.violate('C13/admitted-despite-inconsistent-strategies',
                             f'{inst.nick} admits {peer} (CHECKED) at vt={vt(w)} although their strategies differ: '
                             f'{mine} vs {theirs}', case=self.run.describe())
            # reciprocity: the peer (same incarnation) has had the observer ISOLATED since before the handshake
            pinst = w.instances.get(peer)
            if pinst is not None and pinst.alive:
                since = self.isolated_at.get((peer, pinst.inc, inst.identifier))
                self.count('reciprocity_checks')
                if since is not None and since < self.checking_at.get(key, 0.0):
                    self.violate('C13/admitted-despite-being-isolated-by-the-peer',
                                 f'{inst.nick} admits {peer} (CHECKED) at vt={vt(w)} although {peer} has had it ISOLATED '
                                 f'since vt={round(since - 1_700_000_000.0, 3)}, before this CHECKING phase began',
                                 case=self.run.describe())

    def on_event(self, ev):
        if ev['k'] != 'rpc_call' or ev['src'] == 'user' or ev['dst'] is None:
            return
        w = self.run.world
        src = w.instances.get(ev['src'])
        if src is None or ev.get('src_inc') != src.inc:
            return
        dst_identifier = next((i for i, n in w.by_identifier.items() if n == ev['dst']), None)
        since = self.isolated_at.get((ev['src'], src.inc, dst_identifier))
        if since is not None:
            self.count('rpcs_to_isolated_checked')
            if w.now > since + TICK:
                self.violate('C13/message-sent-to-isolated-peer',
                             f"{ev['src']} sends {ev['method']} to {ev['dst']} at vt={vt(w)}, isolated since "
                             f"vt={round(since - 1_700_000_000.0, 3)}", case=self.run.describe())

    # -- forged messages attributed to isolated peers ---------------------------------------------------
    def inject(self):
        w = self.run.world
        if getattr(self, 'finished', False):
            return
        w.at(w.now + self.rng.choice([2.3, 5.1, 9.7]), self.inject)
        pairs = [(nick, inc, identifier) for (nick, inc, identifier), t in self.isolated_at.items()
                 if w.instances.get(nick) is not None and w.instances[nick].alive and w.instances[nick].inc == inc
                 and w.instances[nick].http_open and w.instances[nick].sd.options.mood >= 1]
        if not pairs:
            return
        nick, inc, identifier = self.rng.choice(pairs)
        inst = w.instances[nick]
        peer = w.by_identifier.get(identifier)
        spec = w.spec_of(peer)
        origin = [identifier, peer, [spec['ip'], spec['port']]]
        if self.rng.random() < 0.3:
            # resolved through the nick identifier only
            origin[0] = f"alias-of-{peer}.sim:{spec['port']}"
        rng = self.rng
        mono = w.now - 1_700_000_000.0 + spec.get('mono_off', 0.0)
        kind, header, body = rng.choice([
            (PUBLICATION, 0, {'when': int(w.now), 'when_monotonic': mono, 'sequence_counter': rng.randint(0, 500)}),
            (PUBLICATION, 1, {'identifier': identifier, 'nick_identifier': peer, 'name': 'x', 'group': 'y', 'state': 20,
                              'now': w.now, 'now_monotonic': mono, 'pid': 4242, 'expected': True, 'spawnerr': '',
                              'extra_args': '', 'disabled': False}),
            (PUBLICATION, 7, {'identifier': identifier, 'nick_identifier': peer, 'now_monotonic': mono,
                              'fsm_statecode': 4, 'fsm_statename': 'OPERATION', 'degraded_mode': False,
                              'discovery_mode': False, 'master_identifier': identifier, 'starting_jobs': True,
                              'stopping_jobs': False, 'instance_states': {identifier: 'RUNNING'}}),
            (NOTIFICATION, 1, {'authorization': rng.choice(list(AUTH_CODES.values())),
                               'now_monotonic': w.now - 1_700_000_000.0 + w.spec_of(nick).get('mono_off', 0.0) + 1.0}),
            (NOTIFICATION, 5, None),
            (NOTIFICATION, 3, []),
        ])
        # a real process name makes the PROCESS event plausible
        if header == 1 and kind == PUBLICATION and self.run.scenario.get('model'):
            from vsim.gen import model_processes
            names = list(model_processes(self.run.scenario['model']))
            if names:
                body['group'], body['name'] = rng.choice(names).split(':')
        inst.loop()
        if not inst.alive or not inst.http_open:
            return
        before = status_snapshot(w, nick)
        res = w.user_rpc(nick, 'supervisor.sendRemoteCommEvent', kind, json.dumps([origin, [header, body]]))
        if res[0] != 'ok' or not inst.alive:
            return
        after = status_snapshot(w, nick)
        self.count('non_interference_checks_isolated')
        if before != after:
            self.violate(f'C13/interference:isolated-peer:{kind[9:]}-{header}',
                         f'a forged message ({kind} {header}) attributed to {peer}, ISOLATED at {nick}, changed its '
                         f'status at vt={vt(w)}: {snapshot_diff(before, after)}', case=self.run.describe())

    def finish(self, run):
        self.finished = True
        return self.violations
