""" C18 - rules and options resolve totally, in-domain, with documented precedence.

Reference-model monitor: generated rules documents are parsed by the real Parser (lxml + XSD mode for XSD-valid
documents, ElementTree mode - lxml import blocked - for any well-formed document) and every lookup is compared with
a reference resolver written from the documentation; generated option dictionaries go through the real
SupvisorsOptions, many per process, and are compared with the documented defaults / ranges / consistency rules.
"""
import math
import os
import random
import re
import sys
import tempfile
import traceback
from xml.sax.saxutils import escape, quoteattr

from vsim.single import Single

PROPERTY = 'C18'
LEVEL = 'exploration'
RULE = ('generated rules documents: aliases (also referencing each other in both orders), model chains incl. cycles '
        'and depth > 3, applications and programs by exact name and by overlapping patterns (substring, anchored, '
        'regex), # / @ with and without sublists, values inside and outside their domain; every generated group / '
        'process name is resolved by the real Parser in both parser modes and compared field by field with the '
        'reference resolver; # / @ assignment checked on real homogeneous groups; option dictionaries with every '
        'option in / out of range, ill-typed, NaN / inf, empty lists, 40 constructions per process; non-trivial = '
        'lookup involving a pattern choice, a model chain, an alias or an out-of-domain value; distinct = distinct '
        '(lookup kind, chain depth, out-of-domain fields, sign) tuples')
ASSUMPTIONS = ['"greatest matching" = longest matched substring of re.search, first declared pattern on ties',
               'aliases are expanded in declaration order, each replacing its first occurrence',
               'in lxml mode only XSD-valid documents are generated; a document refused by the XSD is not a case']
FLOORS = {'quick': {'program_lookups': 20000, 'application_lookups': 6000, 'pattern_choices': 4000,
                    'model_chains': 4000, 'out_of_domain_values': 4000, 'sign_assignments': 1000,
                    'option_sets': 4000, 'lxml_documents': 200, 'etree_documents': 200},
          'thorough': {'program_lookups': 500000, 'application_lookups': 150000, 'pattern_choices': 100000,
                       'model_chains': 100000, 'out_of_domain_values': 100000, 'sign_assignments': 25000,
                       'option_sets': 100000, 'lxml_documents': 5000, 'etree_documents': 5000}}
DOCS = {'quick': 48, 'thorough': 600}
CASES = {'quick': 32, 'thorough': 64}

SFS = ['ABORT', 'CONTINUE', 'STOP']
RFS = ['CONTINUE', 'RESTART_PROCESS', 'STOP_APPLICATION', 'RESTART_APPLICATION', 'SHUTDOWN', 'RESTART']
STARTING = ['CONFIG', 'LESS_LOADED', 'MOST_LOADED', 'LOCAL', 'LESS_LOADED_NODE', 'MOST_LOADED_NODE']
DISTRIB = ['ALL_INSTANCES', 'SINGLE_INSTANCE', 'SINGLE_NODE']
TRUE = ('y', 'yes', 't', 'true', 'on', '1')
FALSE = ('n', 'no', 'f', 'false', 'off', '0')


def plan(tier, seed):
    return [{'seed': seed * 49979687 + i, 'docs': DOCS[tier]} for i in range(CASES[tier])]


# ---------------------------------------------------------------------------------------------------
# document generator (a python structure rendered to XML; the reference resolver reads the structure)

class DocGen:
    def __init__(self, rng, nicks, xsd_valid):
        self.rng, self.nicks, self.xsd = rng, nicks, xsd_valid
        self.ood = 0

    def seq_value(self):
        r = self.rng.random()
        if r < 0.7:
            return str(self.rng.randint(0, 9))
        self.ood += 1
        if self.xsd:
            return str(self.rng.choice([-1, -5, -128]))
        return self.rng.choice(['-1', '-7', 'abc', '1.5', '', ' 3 ', '1e3', '0x10', '999999999999'])

    def bool_value(self):
        r = self.rng.random()
        if self.xsd:
            return self.rng.choice(['true', 'false', '1', '0'])
        if r < 0.7:
            return self.rng.choice(list(TRUE + FALSE) + ['TRUE', 'False', 'Yes'])
        self.ood += 1
        return self.rng.choice(['maybe', '2', 'vrai', 'tru', 'none'])

    def load_value(self):
        r = self.rng.random()
        if r < 0.75 or self.xsd:
            return str(self.rng.randint(0, 100))
        self.ood += 1
        return self.rng.choice(['-1', '101', '1000', 'abc', '12.5', '-0'])

    def enum_value(self, values):
        if self.xsd or self.rng.random() < 0.75:
            return self.rng.choice(values)
        self.ood += 1
        return self.rng.choice(['continue', 'NOPE', 'Abort', values[0].lower(), values[0] + ' ', '0'])

    def identifiers_value(self, aliases, signs=True):
        r = self.rng.random()
        pool = self.nicks + list(aliases) + ['unknown_x']
        items = self.rng.sample(pool, self.rng.randint(1, min(4, len(pool))))
        if r < 0.15:
            items.insert(self.rng.randrange(len(items) + 1), '*')
        if signs and self.rng.random() < 0.3:
            sign = self.rng.choice(['#', '@', '#', '@', '#@'])
            if self.rng.random() < 0.4:
                items = []
            for ch in sign:
                items.insert(self.rng.randrange(len(items) + 1), ch)
        if self.rng.random() < 0.1:
            items.append(items[0])
        return ','.join(items)

    def program_rules(self, aliases, models, signs=True):
        rules = {}
        if models and self.rng.random() < 0.5:
            rules['reference'] = self.rng.choice(models + ['no_such_model'])
        if self.rng.random() < 0.5:
            rules['identifiers'] = self.identifiers_value(aliases, signs)
        if self.rng.random() < 0.6:
            rules['start_sequence'] = self.seq_value()
        if self.rng.random() < 0.4:
            rules['stop_sequence'] = self.seq_value()
        if self.rng.random() < 0.5:
            rules['required'] = self.bool_value()
        if self.rng.random() < 0.4:
            rules['wait_exit'] = self.bool_value()
        if self.rng.random() < 0.5:
            rules['expected_loading'] = self.load_value()
        if self.rng.random() < 0.4:
            rules['starting_failure_strategy'] = self.enum_value(SFS)
        if self.rng.random() < 0.4:
            rules['running_failure_strategy'] = self.enum_value(RFS)
        return rules

    def document(self):
        rng = self.rng
        doc = {'aliases': [], 'models': [], 'applications': []}
        # aliases, possibly referencing each other in both orders
        alias_names = [f'al{i}' for i in range(rng.randint(0, 4))]
        for name in alias_names:
            pool = self.nicks + alias_names + ['ghost']
            doc['aliases'].append((name, ','.join(rng.sample(pool, rng.randint(1, 3)))))
        # models with chains and cycles
        model_names = [f'm{i}' for i in range(rng.randint(0, 6))]
        for name in model_names:
            doc['models'].append((name, self.program_rules(alias_names, model_names)))
        # applications
        app_keys = []
        # (a pattern may be the very text of an application name: two elements then carry the same string)
        pats = ['app', 'app_', 'app_\\d+', '^app_1', 'pp_', 'app_1$', '.*', 'app_[12]', 'zzz', '_\\d',
                'app_1', 'app_2', 'app_3']
        if rng.random() < 0.05:
            pats = pats + ['app_(', '[', '*app', 'app_\\']
        for a in range(rng.randint(1, 5)):
            if rng.random() < 0.5:
                key = ('name', f'app_{rng.randint(1, 4)}')
            else:
                key = ('pattern', rng.choice(pats))
            if key in app_keys:
                continue
            app_keys.append(key)
            app = {'key': key, 'rules': {}, 'programs': []}
            if rng.random() < 0.4:
                app['rules']['distribution'] = self.enum_value(DISTRIB)
            if rng.random() < 0.4:
                value = self.identifiers_value(alias_names, signs=False)
                if rng.random() < 0.3:
                    value = '#' if rng.random() < 0.5 else '#,' + value
                app['rules']['identifiers'] = value
            if rng.random() < 0.6:
                app['rules']['start_sequence'] = self.seq_value()
            if rng.random() < 0.4:
                app['rules']['stop_sequence'] = self.seq_value()
            if rng.random() < 0.4:
                app['rules']['starting_strategy'] = self.enum_value(STARTING)
            if rng.random() < 0.4:
                app['rules']['starting_failure_strategy'] = self.enum_value(SFS)
            if rng.random() < 0.4:
                app['rules']['running_failure_strategy'] = self.enum_value(RFS)
            prog_keys = []
            ppats = ['prg', 'prg_', 'prg_\\d+', '^prg_0', 'rg_', 'prg_01$', '.*', 'prg_0[12]', 'other', '_0\\d']
            if rng.random() < 0.05:
                ppats = ppats + ['prg_(', '[', '+prg', '(?P<x']
            for p in range(rng.randint(0, 5)):
                if rng.random() < 0.4:
                    pkey = ('name', rng.choice(['prg_01', 'prg_02', 'other', 'prg']))
                else:
                    pkey = ('pattern', rng.choice(ppats))
                if pkey in prog_keys:
                    continue
                prog_keys.append(pkey)
                app['programs'].append({'key': pkey, 'rules': self.program_rules(alias_names, model_names)})
            doc['applications'].append(app)
        return doc


def render(doc):
    out = ['<?xml version="1.0" encoding="UTF-8" standalone="no"?>', '<root>']
    items = [('alias', a) for a in doc['aliases']] + [('model', m) for m in doc['models']] + \
        [('application', a) for a in doc['applications']]
    for kind, item in items:
        if kind == 'alias':
            out.append(f' <alias name={quoteattr(item[0])}>{escape(item[1])}</alias>')
        elif kind == 'model':
            out.append(f' <model name={quoteattr(item[0])}>')
            for k, v in item[1].items():
                out.append(f'  <{k}>{escape(v)}</{k}>')
            out.append(' </model>')
        else:
            attr, value = item['key']
            out.append(f' <application {attr}={quoteattr(value)}>')
            for k, v in item['rules'].items():
                out.append(f'  <{k}>{escape(v)}</{k}>')
            if item['programs']:
                out.append('  <programs>')
                for prog in item['programs']:
                    pattr, pvalue = prog['key']
                    out.append(f'   <program {pattr}={quoteattr(pvalue)}>')
                    for k, v in prog['rules'].items():
                        out.append(f'    <{k}>{escape(v)}</{k}>')
                    out.append('   </program>')
                out.append('  </programs>')
            out.append(' </application>')
    out.append('</root>')
    return '\n'.join(out)


# ---------------------------------------------------------------------------------------------------
# reference resolver (from the documentation)

def best_pattern(name, keyed):
    """ keyed: list of (pattern, item) in declaration order. Longest matched substring wins, first on ties. """
    best, best_len = None, -1
    for pattern, item in keyed:
        try:
            mo = re.search(pattern, name)
        except re.error:
            continue  # an ill-formed pattern matches nothing
        if mo and len(mo.group()) > best_len:
            best, best_len = item, len(mo.group())
    return best


def find_application(doc, name):
    for app in doc['applications']:
        if app['key'] == ('name', name):
            return app
    return best_pattern(name, [(a['key'][1], a) for a in doc['applications'] if a['key'][0] == 'pattern'])


def find_program(app, process_name):
    for prog in app['programs']:
        if prog['key'] == ('name', process_name):
            return prog, False
    prog = best_pattern(process_name, [(p['key'][1], p) for p in app['programs'] if p['key'][0] == 'pattern'])
    return prog, prog is not None


def split_list(value):
    return [x.strip() for x in value.split(',')] if value.strip() else []


def expand_identifiers(doc, value):
    items = split_list(value)
    for alias_name, alias_value in doc['aliases']:
        alias_items = split_list(alias_value)
        if not alias_value.strip():
            continue
        if alias_name in items:
            pos = items.index(alias_name)
            items[pos:pos + 1] = alias_items
    res = []
    for x in items:
        if x and x not in res:
            res.append(x)
    return res


def apply_identifiers(doc, value, target):
    if value is None or not value.strip():
        return
    items = expand_identifiers(doc, value)
    has_at, has_hash = '@' in items, '#' in items
    items = [x for x in items if x not in ('@', '#')]
    if ((has_at or has_hash) and not items) or '*' in items:
        items = ['*']
    if has_at:
        target['at'], target['identifiers'] = items, []
    if has_hash:
        target['hash'], target['identifiers'] = items, []
    if not has_at and not has_hash:
        target['identifiers'] = items


def to_int(value):
    try:
        return int(value)
    except (TypeError, ValueError):
        return None


def apply_program_values(doc, rules, target):
    apply_identifiers(doc, rules.get('identifiers'), target)
    for field in ('start_sequence', 'stop_sequence'):
        v = rules.get(field)
        if v is not None and v.strip() and to_int(v) is not None and to_int(v) >= 0:
            target[field] = to_int(v)
    for field in ('required', 'wait_exit'):
        v = rules.get(field)
        if v is not None and v.strip():
            if v.lower() in TRUE:
                target[field] = True
            elif v.lower() in FALSE:
                target[field] = False
    v = rules.get('expected_loading')
    if v is not None and v.strip() and to_int(v) is not None and 0 <= to_int(v) <= 100:
        target['expected_loading'] = to_int(v)
    v = rules.get('starting_failure_strategy')
    if v in SFS:
        target['starting_failure_strategy'] = v
    v = rules.get('running_failure_strategy')
    if v in RFS:
        target['running_failure_strategy'] = v


def resolve_program(doc, app_name, process_name):
    target = {'identifiers': ['*'], 'at': [], 'hash': [], 'start_sequence': 0, 'stop_sequence': -1,
              'required': False, 'wait_exit': False, 'expected_loading': 0,
              'starting_failure_strategy': 'ABORT', 'running_failure_strategy': 'CONTINUE'}
    info = {'pattern': False, 'chain': 0, 'app_pattern': False}
    app = find_application(doc, app_name)
    prog, is_pattern = (None, False)
    if app is not None:
        info['app_pattern'] = app['key'][0] == 'pattern'
        prog, is_pattern = find_program(app, process_name)
    if prog is not None:
        info['pattern'] = is_pattern
        # chain of 3 sections at most: the program and two models; deeper first
        chain = [prog['rules']]
        models = dict(doc['models'])
        cur = prog['rules']
        while len(chain) < 3:
            ref = cur.get('reference')
            if ref is None or ref not in models:
                break
            cur = models[ref]
            chain.append(cur)
        info['chain'] = len(chain) - 1
        for rules in reversed(chain):
            apply_program_values(doc, rules, target)
    # dependencies
    if target['at'] and not is_pattern:
        target['identifiers'], target['at'] = ['*'], []
    if target['hash'] and not is_pattern:
        target['identifiers'], target['hash'] = ['*'], []
    if target['at'] and target['hash']:
        target['hash'] = []
    if target['required'] and target['start_sequence'] == 0:
        target['required'] = False
    if target['stop_sequence'] < 0:
        target['stop_sequence'] = target['start_sequence']
    return target, info


def resolve_application(doc, app_name, all_identifiers):
    target = {'managed': False, 'distribution': 'ALL_INSTANCES', 'identifiers': ['*'], 'hash': [],
              'start_sequence': 0, 'stop_sequence': -1, 'starting_strategy': 'CONFIG',
              'starting_failure_strategy': 'ABORT', 'running_failure_strategy': 'CONTINUE'}
    app = find_application(doc, app_name)
    if app is not None:
        rules = app['rules']
        target['managed'] = True
        if rules.get('distribution') in DISTRIB:
            target['distribution'] = rules['distribution']
        tmp = {'identifiers': ['*'], 'at': [], 'hash': []}
        apply_identifiers(doc, rules.get('identifiers'), tmp)
        target['identifiers'], target['hash'], target['at'] = tmp['identifiers'], tmp['hash'], tmp['at']
        for field in ('start_sequence', 'stop_sequence'):
            v = rules.get(field)
            if v is not None and v.strip() and to_int(v) is not None and to_int(v) >= 0:
                target[field] = to_int(v)
        if rules.get('starting_strategy') in STARTING:
            target['starting_strategy'] = rules['starting_strategy']
        if rules.get('starting_failure_strategy') in SFS:
            target['starting_failure_strategy'] = rules['starting_failure_strategy']
        if rules.get('running_failure_strategy') in RFS:
            target['running_failure_strategy'] = rules['running_failure_strategy']
    if target['stop_sequence'] < 0:
        target['stop_sequence'] = target['start_sequence']
    if target['hash']:
        mo = re.match(r'.*[-_](\d+)$', app_name)
        number = int(mo.group(1)) - 1 if mo else -1
        if number >= 0:
            ref = all_identifiers if '*' in target['hash'] else target['hash']
            target['identifiers'] = [ref[number % len(ref)]]
        else:
            target['start_sequence'] = 0
            if mo is None or number < 0:
                # stop_sequence already defaulted from the start_sequence read in the file
                pass
    return target


# ---------------------------------------------------------------------------------------------------

def compare_program(rules, expected):
    got = {'identifiers': list(rules.identifiers), 'at': list(rules.at_identifiers),
           'hash': list(rules.hash_identifiers), 'start_sequence': rules.start_sequence,
           'stop_sequence': rules.stop_sequence, 'required': rules.required, 'wait_exit': rules.wait_exit,
           'expected_loading': rules.expected_load,
           'starting_failure_strategy': rules.starting_failure_strategy.name,
           'running_failure_strategy': rules.running_failure_strategy.name}
    return [f'{k}: got {got[k]!r}, documented {expected[k]!r}' for k in expected if got[k] != expected[k]]


def compare_application(rules, expected):
    got = {'managed': rules.managed, 'distribution': rules.distribution.name, 'identifiers': list(rules.identifiers),
           'start_sequence': rules.start_sequence, 'stop_sequence': rules.stop_sequence,
           'starting_strategy': rules.starting_strategy.name,
           'starting_failure_strategy': rules.starting_failure_strategy.name,
           'running_failure_strategy': rules.running_failure_strategy.name}
    return [f'{k}: got {got[k]!r}, documented {expected[k]!r}' for k in got if got[k] != expected[k]]


class StepLimit(Exception):
    pass


def run_case(case):
    from supvisors.application import ApplicationRules, ApplicationStatus
    from supvisors.process import ProcessRules, ProcessStatus
    from supvisors.sparser import Parser
    rng = random.Random(case['seed'])
    single = Single(n=4, seed=case['seed'])
    counters = {'program_lookups': 0, 'application_lookups': 0, 'pattern_choices': 0, 'model_chains': 0,
                'out_of_domain_values': 0, 'sign_assignments': 0, 'option_sets': 0, 'lxml_documents': 0,
                'etree_documents': 0, 'documents_refused': 0, 'ill_formed_patterns': 0}
    violations = []
    seen = set()
    sample = None
    tmpdir = tempfile.mkdtemp(prefix='c18_')

    def bad(key, msg):
        if len(violations) < 12:
            violations.append({'key': key, 'msg': msg})

    try:
        sv = single.supvisors
        nicks = [s['nick'] for s in single.world.specs]
        idents = single.identifiers
        with single.ctx():
            for d in range(case['docs']):
                xsd = rng.random() < 0.5
                gen = DocGen(rng, nicks, xsd)
                doc = gen.document()
                text = render(doc)
                path = os.path.join(tmpdir, f'rules_{d}.xml')
                with open(path, 'w') as fd:
                    fd.write(text)
                saved = sv.options.rules_files
                sv.options.rules_files = [path]
                blocked = {}
                if not xsd:
                    for mod in ('lxml', 'lxml.etree'):
                        blocked[mod] = sys.modules.get(mod)
                        sys.modules[mod] = None
                try:
                    try:
                        parser = Parser(sv)
                    except ValueError:
                        counters['documents_refused'] += 1
                        continue
                    except Exception as exc:
                        bad(f'C18/parser-exception:{type(exc).__name__}',
                            f'Parser raised {traceback.format_exc()[-600:]} on\n{text[:1500]}')
                        continue
                finally:
                    for mod, value in blocked.items():
                        if value is None:
                            sys.modules.pop(mod, None)
                        else:
                            sys.modules[mod] = value
                    sv.options.rules_files = saved
                counters['lxml_documents' if xsd else 'etree_documents'] += 1
                for a in doc['applications']:
                    for kind, pat in [a['key']] + [p['key'] for p in a['programs']]:
                        if kind == 'pattern':
                            try:
                                re.compile(pat)
                            except re.error:
                                counters['ill_formed_patterns'] += 1
                counters['out_of_domain_values'] += gen.ood
                for app_name in ['app_1', 'app_2', 'app_3', 'app_12', 'app-02', 'app', 'other_app', 'app_0']:
                    # -- application lookup
                    arules = ApplicationRules(sv)
                    try:
                        parser.load_application_rules(app_name, arules)
                    except Exception as exc:
                        bad(f'C18/application-lookup-exception:{type(exc).__name__}',
                            f'load_application_rules({app_name}) raised {traceback.format_exc()[-600:]} on\n'
                            f'{text[:2000]}')
                        continue
                    expected = resolve_application(doc, app_name, idents)
                    counters['application_lookups'] += 1
                    diffs = compare_application(arules, expected)
                    if diffs:
                        bad('C18/application:' + diffs[0].split(':')[0], f'application {app_name}: ' +
                            '; '.join(diffs) + f' ({"lxml" if xsd else "etree"} mode) on\n{text[:2500]}')
                    # -- program lookups
                    for process_name in ['prg_01', 'prg_02', 'prg_10', 'prg', 'other', 'xprg_01x']:
                        prules = ProcessRules(sv)
                        namespec = f'{app_name}:{process_name}'
                        try:
                            parser.load_program_rules(namespec, prules)
                        except Exception as exc:
                            bad(f'C18/program-lookup-exception:{type(exc).__name__}',
                                f'load_program_rules({namespec}) raised {traceback.format_exc()[-600:]} on\n'
                                f'{text[:2000]}')
                            continue
                        expected, info = resolve_program(doc, app_name, process_name)
                        counters['program_lookups'] += 1
                        if info['pattern'] or info['app_pattern']:
                            counters['pattern_choices'] += 1
                        if info['chain']:
                            counters['model_chains'] += 1
                        seen.add((info['pattern'], info['app_pattern'], info['chain'], bool(expected['at']),
                                  bool(expected['hash']), expected['required'], xsd))
                        diffs = compare_program(prules, expected)
                        if diffs:
                            bad('C18/program:' + diffs[0].split(':')[0], f'process {namespec}: ' + '; '.join(diffs) +
                                f' ({"lxml" if xsd else "etree"} mode, pattern={info["pattern"]} chain='
                                f'{info["chain"]}) on\n{text[:3000]}')
                if sample is None and doc['models'] and doc['aliases']:
                    sample = text[:1800]
                if violations:
                    break
            # ---- '#' / '@' assignment on real homogeneous groups
            for _ in range(case['docs'] * 4):
                sign = rng.choice(['#', '@'])
                sub = rng.sample(nicks + ['ghost'], rng.randint(1, 4)) if rng.random() < 0.5 else ['*']
                numprocs = rng.randint(1, 7)
                arules = ApplicationRules(sv)
                arules.managed = True
                app = ApplicationStatus('app_1', arules, sv)
                procs = []
                order = list(range(numprocs))
                rng.shuffle(order)
                for idx in order:
                    prules = ProcessRules(sv)
                    prules.start_sequence = 1
                    prules.identifiers = []
                    if sign == '#':
                        prules.hash_identifiers = list(sub)
                    else:
                        prules.at_identifiers = list(sub)
                    proc = ProcessStatus('app_1', f'prg_{idx + 1:02d}', prules, sv)
                    from monitors.c14_placement import payload
                    proc.add_info(idents[0], payload(f'prg_{idx + 1:02d}', 'app_1', 0, 10.0, program='prg',
                                                     index=idx))
                    app.add_process(proc)
                    procs.append((idx, proc))
                app.update_sequences()
                try:
                    app.resolve_rules()
                except Exception as exc:
                    bad(f'C18/sign-exception:{type(exc).__name__}', f'resolve_rules raised '
                        f'{traceback.format_exc()[-600:]} sign={sign} sub={sub} numprocs={numprocs}')
                    continue
                ref = list(idents) if '*' in sub else [idents[nicks.index(x)] for x in sub if x in nicks]
                counters['sign_assignments'] += 1
                for idx, proc in sorted(procs):
                    if not ref:
                        expected = []
                    elif sign == '@':
                        expected = [ref[idx]] if idx < len(ref) else []
                    else:
                        expected = [ref[idx % len(ref)]]
                    if list(proc.rules.identifiers) != expected:
                        bad(f'C18/sign:{sign}', f'{sign} with sublist {sub} and {numprocs} processes: process index '
                            f'{idx} assigned {proc.rules.identifiers}, documented {expected}')
                        break
            # ---- options
            check_options(rng, sv, counters, bad, case['docs'] * 20)
    finally:
        single.close()
        import shutil
        shutil.rmtree(tmpdir, ignore_errors=True)
    uniq = {}
    for v in violations:
        uniq.setdefault(v['key'], v)
    return {'violations': list(uniq.values()), 'counters': counters, 'signature': f"{case['seed']}:{len(seen)}",
            'sample': sample}


# ---------------------------------------------------------------------------------------------------
# options

def gen_int(rng, lo, hi):
    r = rng.random()
    if r < 0.5:
        return str(rng.randint(lo, hi)), True
    return rng.choice([str(lo - 1), str(hi + 1), '-3', 'abc', '', '1.5', 'nan', 'inf', str(10 ** 12), ' ', '0x1f']), False


def check_options(rng, sv, counters, bad, count):
    from supvisors.options import SupvisorsOptions
    supervisord = sv.supervisor_data.supervisord
    for _ in range(count):
        config, expect = {}, {}
        # synchro / core / list
        has_list = rng.random() < 0.8
        if has_list:
            config['supvisors_list'] = 'alpha,bravo:60002,<c>charlie:60003'
        elif rng.random() < 0.5:
            # the option is present but holds no name: an empty list, as when it is absent
            config['supvisors_list'] = rng.choice(['', ',', ' , ', '  '])
            counters['empty_lists_given'] = counters.get('empty_lists_given', 0) + 1
        core = rng.random() < 0.5
        if core:
            config['core_identifiers'] = rng.choice(['alpha', 'alpha,bravo', ' alpha , , bravo '])
        elif rng.random() < 0.3:
            config['core_identifiers'] = rng.choice(['', ',', ' , '])
            counters['empty_lists_given'] = counters.get('empty_lists_given', 0) + 1
        synchro = None
        if rng.random() < 0.7:
            names = ['STRICT', 'LIST', 'TIMEOUT', 'CORE', 'USER']
            chosen = rng.sample(names, rng.randint(0, 5))
            if rng.random() < 0.15:
                chosen.append('BOGUS')
            text = ','.join(x.lower() if rng.random() < 0.3 else x for x in chosen)
            config['synchro_options'] = text
            synchro = None if 'BOGUS' in chosen else list(dict.fromkeys(chosen))
        if synchro is None:
            synchro = ['STRICT', 'TIMEOUT', 'CORE']
        if not core and 'CORE' in synchro:
            synchro.remove('CORE')
        if not has_list and 'STRICT' in synchro:
            synchro.remove('STRICT')
        refused = not synchro
        failure = 'CONTINUE'
        if rng.random() < 0.6:
            value = rng.choice(['CONTINUE', 'RESYNC', 'SHUTDOWN', 'resync', 'bogus', ''])
            config['supvisors_failure_strategy'] = value
            if value.upper() in ('CONTINUE', 'RESYNC', 'SHUTDOWN'):
                failure = value.upper()
        if 'TIMEOUT' in synchro:
            failure = 'CONTINUE'
        expect['supvisors_failure_strategy'] = failure
        for key, lo, hi, default in (('synchro_timeout', 15, 1200, 15), ('inactivity_ticks', 2, 720, 2),
                                     ('stats_histo', 10, 1500, 200), ('event_port', 1, 65535, 0),
                                     ('multicast_ttl', 0, 255, 1)):
            if rng.random() < 0.6:
                text, ok = gen_int(rng, lo, hi)
                config[key] = text
                expect[key] = int(text) if ok else default
            else:
                expect[key] = default
        for key, default, enum in (('conciliation_strategy', 'USER',
                                    ['SENICIDE', 'INFANTICIDE', 'USER', 'STOP', 'RESTART', 'RUNNING_FAILURE']),
                                   ('starting_strategy', 'CONFIG', STARTING)):
            if rng.random() < 0.6:
                value = rng.choice(enum + [enum[0].lower(), 'bogus', '', '3'])
                config[key] = value
                expect[key] = value.upper() if value.upper() in enum else default
            else:
                expect[key] = default
        if rng.random() < 0.6:
            value = rng.choice(['true', 'false', 'yes', 'no', '1', '0', 'on', 'off', 'maybe', '', '2', 'TRUE'])
            config['auto_fence'] = value
            expect['auto_fence'] = {'true': True, 'yes': True, '1': True, 'on': True,
                                    'false': False, 'no': False, '0': False, 'off': False}.get(value.lower(), False)
        else:
            expect['auto_fence'] = False
        if rng.random() < 0.6:
            value = rng.choice(['1', '1.0', '5.5', '3600', '0.99', '3600.1', '-1', 'nan', 'NaN', 'inf', 'abc', '',
                                '1e2', '1e9'])
            config['stats_collecting_period'] = value
            try:
                f = float(value)
                expect['collecting_period'] = f if 1.0 <= f <= 3600.0 else 5
            except ValueError:
                expect['collecting_period'] = 5
        else:
            expect['collecting_period'] = 5
        if rng.random() < 0.6:
            items = [rng.choice(['1', '5', '10.5', '3600', '0.5', '4000', 'nan', 'x', '60', '-inf'])
                     for _ in range(rng.randint(0, 4))]
            config['stats_periods'] = ','.join(items)
            try:
                values = [float(x) for x in items]
                ok = 1 <= len(values) <= 3 and all(1.0 <= v <= 3600.0 for v in values)
            except ValueError:
                ok = False
            expect['stats_periods'] = sorted(values) if ok else [10]
        else:
            expect['stats_periods'] = [10]
        counters['option_sets'] += 1
        try:
            opts = SupvisorsOptions(supervisord, sv.logger, **config)
        except ValueError as exc:
            if not refused:
                bad('C18/options:refused', f'option set {config} refused: {exc}')
            continue
        except Exception as exc:
            bad(f'C18/options-exception:{type(exc).__name__}', f'option set {config}: '
                f'{traceback.format_exc()[-600:]}')
            continue
        if refused:
            bad('C18/options:empty-synchro-accepted', f'option set {config} accepted with an empty synchro_options')
            continue
        got = {'synchro_options': [x.name for x in opts.synchro_options],
               'supvisors_failure_strategy': opts.supvisors_failure_strategy.name,
               'synchro_timeout': opts.synchro_timeout, 'inactivity_ticks': opts.inactivity_ticks,
               'stats_histo': opts.stats_histo, 'event_port': opts.event_port, 'multicast_ttl': opts.multicast_ttl,
               'conciliation_strategy': opts.conciliation_strategy.name,
               'starting_strategy': opts.starting_strategy.name, 'auto_fence': opts.auto_fence,
               'collecting_period': opts.collecting_period, 'stats_periods': opts.stats_periods}
        expect['synchro_options'] = synchro
        for key, value in expect.items():
            g = got[key]
            same = (g == value)
            if isinstance(g, float) and isinstance(value, (int, float)):
                same = (g == value) and not math.isnan(g)
            if isinstance(g, list) and any(isinstance(x, float) and math.isnan(x) for x in g):
                same = False
            if not same:
                bad(f'C18/options:{key}', f'{key}: got {g!r}, documented {value!r} for option set {config}')
