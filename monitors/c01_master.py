""" C01 - connected instances converge on one running Master. """
from monitors.lib import MasterMonitor
from workloads.membership import Run

PROPERTY = 'C01'
LEVEL = 'exploration'
RULE = ('generated clusters (2-5 instances on 1-3 nodes, nick order != declaration order, synchro options, '
        'core_identifiers, auto_fence) under generated fault scripts (crash / restart faster and slower than '
        'detection / partition+heal / link cut / late joiner, Master or not) and randomised message delays; '
        'oracle evaluated per group at the end of a quiet period of K then 2K ticks; non-trivial = at least one '
        'effective disturbance and a multi-instance group evaluated; distinct = distinct (size, nodes, synchro '
        'options, failure strategy, auto_fence, core, schedule profile, disturbance kinds, late joiner) tuples')
ASSUMPTIONS = ['simulated transport and OS layer (DESIGN.md 2.1) are faithful',
               'liveness restated as convergence within 2K ticks after the last disturbance, '
               'K = ceil(synchro_timeout/5) + inactivity_ticks + 12',
               'groups that are not cliques of the reachability/isolation relation, or whose synchronization '
               'condition cannot be met, are not evaluated']
FLOORS = {'quick': {'groups_evaluated': 150, 'automatic_requests': 200, 'kept_master_evaluations': 10, 'host_reboots': 40},
          'thorough': {'groups_evaluated': 3000, 'automatic_requests': 4000, 'kept_master_evaluations': 200,
                       'rule_evaluations_master_loss': 20, 'host_reboots': 700}}
COUNT = {'quick': 360, 'thorough': 8000}
BUDGET_S = {'quick': 55, 'thorough': 540}

KNOBS = {'n_min': 2, 'n_max': 5, 'late_p': 0.2, 'trigger_p': 0.15,
         'kinds': ['crash', 'restart', 'restart', 'partition', 'cutlink', 'crash_master', 'crash_master',
                   'restart_master', 'proc_kill', 'proc_kill'],
         'apps': {'n_apps': (1, 2), 'n_progs': (1, 2)}}


# a family with slow handshakes (each of its XML-RPCs takes 0 - 3 s, L3 engine): what a handshake has read of the
# peer (its state, its Master) is delivered after the newer publications of that peer
SLOW_KNOBS = dict(KNOBS, handshake_skew=[0.0, 0.3, 1.0, 2.0, 3.0], late_p=0.4)


# and a family where the HOST of an instance reboots (instances alone on their node): the monotonic clock of the new
# incarnation starts again near zero, far below the stamps of the messages of the previous one; the restart is slower
# than the failure detection, so that the peers have declared the instance lost in between
REBOOT_KNOBS = dict(KNOBS, host_reboot_p=1.0, n_min=3, n_max=4, max_nodes=4, late_p=0.0, trigger_p=0.0,
                    fixed_script=[[{'kind': 'restart', 'down': (25.0, 60.0), 'gap_ticks': [2, 4]}],
                                  [{'kind': 'restart', 'down': (25.0, 60.0), 'gap_ticks': [2, 4]},
                                   {'kind': 'crash_master'}],
                                  [{'kind': 'restart_master', 'down': (25.0, 60.0), 'gap_ticks': [2, 4]}]])
REBOOT_COUNT = {'quick': 80, 'thorough': 1500}


def plan(tier, seed):
    return [{'seed': seed * 1000003 + i} for i in range(COUNT[tier])] + \
        [{'seed': seed * 1000003 + 800000 + i, 'family': 'slow-handshake'} for i in range(COUNT[tier] // 4)] + \
        [{'seed': seed * 1000003 + 700000 + i, 'family': 'host-reboot'} for i in range(REBOOT_COUNT[tier])]


def run_case(case):
    mon = MasterMonitor()
    run = Run(case, {'slow-handshake': SLOW_KNOBS, 'host-reboot': REBOOT_KNOBS}.get(case.get('family'), KNOBS), [mon])
    violations = run.execute()
    return {'violations': violations, 'counters': run.counters,
            'signature': run.shape() if getattr(mon, 'nontrivial', False) else None, 'sample': run.describe()}
