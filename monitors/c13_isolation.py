""" C13 - isolation is permanent, reciprocal and airtight. """
from workloads.isolation_fuzz import FuzzRun

PROPERTY = 'C13'
LEVEL = 'exploration'
RULE = ('family history (L3): real clusters with auto_fence, partitions / one-way cuts / crashes / restarts and an '
        'option mismatch on one instance in a third of the cases - permanence, silence (no XML-RPC to an isolated peer '
        'after one tick), reciprocity at the handshake (static strategies, peer that has had the observer ISOLATED '
        'since before the CHECKING phase), forged messages attributed to isolated peers leave the snapshot unchanged; '
        'family fuzz (L2): one real instance and 1-3 scripted peers; randomised schedule of peer TICKs, process / '
        'state / added / removed / disability / statistics publications, handshakes answered by the scripted peer '
        '(reports the local instance RUNNING / ISOLATED / other, same or different strategies, refuses, slow), proxy '
        'steps chosen one message at a time, duplicated / stale / forged IDENTIFICATION, AUTHORIZATION (4 codes), '
        'STATE, ALL_INFO and INSTANCE_FAILURE notifications, right and mismatching claimed origin, time steps; '
        'oracles: full status snapshot (all status XML-RPCs, call-time stamps masked) identical before / after every '
        'message attributed to an ISOLATED peer, every event publication of a peer not CHECKED / RUNNING, every '
        'message with a mismatching address and every stale handshake result; no XML-RPC to a peer later than one '
        'tick after its isolation; ISOLATED has no successor; a peer that has been answering NOT_AUTHORIZED / '
        'INCONSISTENT since before the CHECKING phase began is never CHECKED; CHECKING -> ISOLATED only if a '
        'handshake of that phase said so; non-trivial = at least one isolation and one non-interference check on an '
        'isolated peer; distinct = distinct (size, auto_fence, action kinds, isolation / admission seen) tuples')
ASSUMPTIONS = ['the scripted peers answer the handshake XML-RPCs with payloads derived from those of the real '
               'instance; a handshake is one proxy step, its duration is modelled by the latency of the scripted '
               'peer (clock seen by that step and not-before date of the notifications it pushes)',
               'an unknown nick with the right identifier and address is accepted by design (Context.is_valid)']
FLOORS = {'quick': {'isolations': 150, 'non_interference_checks_isolated': 1500, 'admissions': 150,
                    'isolations_at_handshake': 60, 'rpcs_to_isolated_checked': 100, 'messages_injected': 10000,
                    'threads_histories_checked': 30},
          'thorough': {'isolations': 3000, 'non_interference_checks_isolated': 30000, 'admissions': 3000,
                       'isolations_at_handshake': 1200, 'rpcs_to_isolated_checked': 2000,
                       'messages_injected': 200000, 'threads_histories_checked': 500}}
COUNT = {'quick': 480, 'thorough': 9000}
BUDGET_S = {'quick': 55, 'thorough': 540}

KNOBS = {'n_steps': [60, 100, 160]}


HISTORY_COUNT = {'quick': 240, 'thorough': 5000}
HISTORY_KNOBS = {'n_min': 2, 'n_max': 4, 'late_p': 0.2, 'trigger_p': 0.2, 'both_p': 0.4, 'mismatch_p': 0.35,
                 'fence': 'true', 'n_dist': [1, 2, 2, 3, 3, 4],
                 'kinds': ['crash', 'restart', 'restart', 'partition', 'partition', 'cutlink', 'cutlink', 'cutlink',
                           'crash_master', 'restart_master'],
                 'apps': {'n_apps': (1, 2), 'n_progs': (1, 3), 'startsecs': (0, 3)}}


THREAD_COUNT = {'quick': 48, 'thorough': 800}


def plan(tier, seed):
    # two families: the L2 fuzz, and real histories of isolation in clusters of real instances (L3)
    cases = [{'seed': seed * 1000003 + i, 'family': 'fuzz'} for i in range(COUNT[tier])]
    cases += [{'seed': seed * 1000003 + 600000 + i, 'family': 'history'} for i in range(HISTORY_COUNT[tier])]
    # and the real proxy threads (real run() / stop() / join()) with a backlog behind a hanging XML-RPC
    cases += [{'seed': seed * 1000003 + 500000 + i, 'family': 'threads'} for i in range(THREAD_COUNT[tier])]
    return cases


def run_case(case):
    if case.get('family') == 'threads':
        from workloads.proxy_threads import FuzzRun as ThreadRun
        run = ThreadRun(case)
        violations, inconclusive = run.execute()
        c = {'threads_' + k: v for k, v in run.counters.items()}
        if inconclusive:
            c['threads_runs_not_judged'] = 1
        return {'violations': violations, 'counters': c,
                'signature': ('t|%d' % (case['seed'] % 7)) if run.counters.get('histories_checked') else None,
                'sample': None}
    if case.get('family') == 'history':
        from monitors.lib_c13 import IsolationMonitor
        from workloads.membership import Run
        mon = IsolationMonitor()
        run = Run(case, HISTORY_KNOBS, [mon])
        violations = run.execute()
        c = {'history_' + k: v for k, v in mon.counters.items()}
        nontrivial = mon.counters.get('isolations', 0) > 0
        return {'violations': violations, 'counters': c,
                'signature': ('h|' + run.shape() + '|' + str(bool(run.describe().get('instance_options'))))
                if nontrivial else None, 'sample': run.describe()}
    run = FuzzRun(case, KNOBS)
    violations = run.execute()
    c = run.counters
    nontrivial = c.get('isolations', 0) > 0 and c.get('non_interference_checks_isolated', 0) > 0
    return {'violations': violations, 'counters': c, 'signature': run.shape() if nontrivial else None,
            'sample': run.describe()}
