""" C14 - placement obeys the starting strategy and the distribution rule.

Real get_supvisors_instance / strategy classes / Starter + ApplicationStartJobs on a real booted context whose
peers are brought to RUNNING through the real handshake entry points (identification event, state setter path),
with generated load tables; compared with a reference written from the statement.
"""
import random

from vsim.single import Single

PROPERTY = 'C14'
LEVEL = 'exploration'
RULE = ('generated load tables: 2-6 instances on 1-3 nodes, a random subset RUNNING, current loads from real '
        'running processes (expected_loading 0-60 each), pending request loads, ordered candidate lists, '
        'expected_loading 0-100, six strategies; oracle: the chosen instance is eligible and no eligible instance '
        'is strictly better under the strategy key (ties free), None iff nothing is eligible; then real Starter '
        'runs of applications with distribution ALL_INSTANCES / SINGLE_INSTANCE / SINGLE_NODE whose program '
        'identifiers rules differ from the application rule (peers identified in a shuffled order, and identified '
        'again - as after a restart - before 30% of the load tables; for SINGLE_NODE the '
        'node and, inside it, the instance of every process are compared with the strategy over the allowed '
        'instances in declared order); non-trivial = at least two eligible instances with '
        'different keys, or a whole-application placement; distinct = distinct (strategy, distribution, eligible '
        'count, tie pattern) tuples')
ASSUMPTIONS = ['loads are percentages summed per node over all instances of the node; the 100 cap applies to the '
               'node load including pending requests (statement of C04)']
FLOORS = {'quick': {'choice_comparisons': 20000, 'nontrivial_choices': 5000, 'application_runs': 1500,
                    'single_instance_runs': 300, 'single_node_runs': 300,
                    'single_node_instance_choices_nontrivial': 300, 'peers_identified_again': 200,
                    'processes_added_to_a_job_in_progress': 800,
                    'added_processes_whose_own_rule_excludes_the_place': 150},
          'thorough': {'choice_comparisons': 600000, 'nontrivial_choices': 150000, 'application_runs': 40000,
                       'single_instance_runs': 9000, 'single_node_runs': 9000,
                       'single_node_instance_choices_nontrivial': 8000, 'peers_identified_again': 6000,
                       'processes_added_to_a_job_in_progress': 20000,
                       'added_processes_whose_own_rule_excludes_the_place': 4000}}
ROUNDS = {'quick': 60, 'thorough': 900}   # load tables per case; each table = 20 choices + 3 application runs
CASES = {'quick': 32, 'thorough': 64}

STRATEGIES = ['CONFIG', 'LESS_LOADED', 'MOST_LOADED', 'LOCAL', 'LESS_LOADED_NODE', 'MOST_LOADED_NODE']
RUNNING = 20


def plan(tier, seed):
    return [{'seed': seed * 15485863 + i, 'rounds': ROUNDS[tier]} for i in range(CASES[tier])]


def payload(name, group, state, now_mono, program=None, index=0):
    return {'name': name, 'group': group, 'state': state, 'statename': str(state), 'start': 10, 'stop': 0,
            'now': 1.7e9, 'pid': 1234, 'description': 'desc', 'spawnerr': '', 'expected': True,
            'start_monotonic': now_mono - 5.0, 'stop_monotonic': 0.0, 'now_monotonic': now_mono, 'extra_args': '',
            'startsecs': 1, 'stopwaitsecs': 2, 'process_index': index, 'program_name': program or name,
            'disabled': False, 'has_stdout': False, 'has_stderr': False}


def network_payload(spec, identifier):
    ip = spec['ip']
    return {'identifier': identifier, 'nick_identifier': spec['nick'], 'host_id': ip, 'http_port': spec['port'],
            'stereotypes': [],
            'network': {'machine_id': '02:00:00:00:00:%02x' % spec['node'], 'fqdn': f"node{spec['node']}.sim",
                        'addresses': {'eth0': {'host_name': f"node{spec['node']}", 'aliases': [],
                                               'ipv4_addresses': [ip],
                                               'nic_info': {'nic_name': 'eth0', 'ipv4_address': ip,
                                                            'netmask': '255.255.0.0'}}}}}


def set_instance_state(sv, status, target):
    """ Walk the documented peer state graph through the real setter. """
    from supvisors.ttypes import SupvisorsInstanceStates as S
    path = {('RUNNING', 'STOPPED'): [S.FAILED, S.STOPPED],
            ('STOPPED', 'RUNNING'): [S.CHECKING, S.CHECKED, S.RUNNING]}
    for state in path.get((status.state.name, target), []):
        status.state = state


def ref_acceptable(strategy, candidates, running, node_of, inst_load, node_load, requests, load, local):
    cands = [c for c in candidates if c in running]
    node_req = {}
    for ident, value in requests.items():
        node_req[node_of[ident]] = node_req.get(node_of[ident], 0) + value

    def nl(c):
        return node_load.get(node_of[c], 0) + node_req.get(node_of[c], 0)

    def il(c):
        return inst_load[c] + requests.get(c, 0)

    eligible = [c for c in cands if nl(c) + load <= 100]
    if not eligible:
        return set(), eligible, False
    if strategy == 'LOCAL':
        return ({local} if local in eligible else set()), eligible, False
    if strategy == 'CONFIG':
        return {eligible[0]}, eligible, len(eligible) > 1
    keys = {'LESS_LOADED': lambda c: (il(c), nl(c)), 'MOST_LOADED': lambda c: (-il(c), -nl(c)),
            'LESS_LOADED_NODE': lambda c: (nl(c), il(c)), 'MOST_LOADED_NODE': lambda c: (-nl(c), -il(c))}
    key = keys[strategy]
    best = min(key(c) for c in eligible)
    return {c for c in eligible if key(c) == best}, eligible, len({key(c) for c in eligible}) > 1


def run_case(case):
    from supvisors.application import ApplicationStatus, ApplicationRules
    from supvisors.process import ProcessStatus, ProcessRules
    from supvisors.strategy import get_supvisors_instance
    from supvisors.ttypes import StartingStrategies, DistributionRules
    rng = random.Random(case['seed'])
    n = rng.randint(2, 6)
    n_nodes = rng.randint(1, min(3, n))
    nodes = list(range(n_nodes)) + [rng.randrange(n_nodes) for _ in range(n - n_nodes)]
    rng.shuffle(nodes)
    single = Single(n=n, nodes=nodes, seed=case['seed'])
    counters = {'choice_comparisons': 0, 'nontrivial_choices': 0, 'none_choices': 0, 'application_runs': 0,
                'single_instance_runs': 0, 'single_node_runs': 0, 'requests_checked': 0, 'no_resource_checked': 0}
    violations = []
    seen = set()
    sample = None
    w = single.world
    requests = []
    w.on_hook('send_start_process', lambda inst, ident, namespec, args: requests.append((ident, namespec)))
    try:
        sv = single.supvisors
        ctx = sv.context
        idents = single.identifiers
        local = idents[0]
        specs = w.specs
        node_of = {i: '02:00:00:00:00:%02x' % s['node'] for i, s in zip(idents, specs)}
        with single.ctx():
            # let the local instance reach RUNNING by itself, then admit the peers
            w.run_for(12.0)
            # the peers are identified in any order (the order of the handshakes is not the declared order)
            arrival = list(zip(idents[1:], specs[1:]))
            rng.shuffle(arrival)
            for ident, spec in arrival:
                status = ctx.instances[ident]
                from supvisors.ttypes import SupvisorsInstanceStates as S
                status.state = S.CHECKING
                single.advance(0.01)
                import time
                event = network_payload(spec, ident)
                event['now_monotonic'] = time.monotonic()
                ctx.on_identification_event(event)
                status.state = S.CHECKED
                status.state = S.RUNNING
            assert ctx.local_status.state.name == 'RUNNING', ctx.local_status.state
            for rnd in range(case['rounds']):
                single.advance(1.0)
                if rng.random() < 0.3:
                    # a peer restarts: it is identified again at its next handshake
                    ident, spec = rng.choice(arrival)
                    status = ctx.instances[ident]
                    set_instance_state(sv, status, 'STOPPED')
                    status.state = S.CHECKING
                    event = network_payload(spec, ident)
                    event['now_monotonic'] = time.monotonic()
                    ctx.on_identification_event(event)
                    status.state = S.CHECKED
                    status.state = S.RUNNING
                    counters['peers_identified_again'] = counters.get('peers_identified_again', 0) + 1
                # -- a new load table
                running = {local} | {i for i in idents[1:] if rng.random() < 0.8}
                for ident in idents[1:]:
                    set_instance_state(sv, ctx.instances[ident], 'RUNNING' if ident in running else 'STOPPED')
                ctx.applications.clear()
                inst_load = {}
                load_app = ApplicationStatus('loadapp', ApplicationRules(sv), sv)
                ctx.applications['loadapp'] = load_app
                k = 0
                for ident in idents:
                    status = ctx.instances[ident]
                    status.processes.clear()
                    total = 0
                    if ident in running:
                        for _ in range(rng.randint(0, 3)):
                            k += 1
                            rules = ProcessRules(sv)
                            rules.expected_load = rng.choice([0, 5, 10, 15, 20, 30])
                            proc = ProcessStatus('loadapp', f'l{k}', rules, sv)
                            proc.add_info(ident, payload(f'l{k}', 'loadapp', RUNNING, 100.0 + rnd))
                            load_app.add_process(proc)
                            status.add_process(proc)
                            total += rules.expected_load
                    inst_load[ident] = total
                node_load = {}
                for ident in idents:
                    node_load[node_of[ident]] = node_load.get(node_of[ident], 0) + inst_load[ident]
                # -- direct choices
                for _ in range(20):
                    strategy = rng.choice(STRATEGIES)
                    candidates = rng.sample(idents, rng.randint(1, len(idents)))
                    load = rng.choice([0, 1, 5, 10, 20, 25, 40, 50, 70])
                    reqs = {i: rng.choice([5, 10, 20, 30]) for i in idents if rng.random() < 0.3}
                    chosen = get_supvisors_instance(sv, StartingStrategies[strategy], list(candidates), load,
                                                    dict(reqs))
                    acceptable, eligible, discriminating = ref_acceptable(strategy, candidates, running, node_of,
                                                                          inst_load, node_load, reqs, load, local)
                    counters['choice_comparisons'] += 1
                    if discriminating:
                        counters['nontrivial_choices'] += 1
                    if chosen is None:
                        counters['none_choices'] += 1
                    seen.add((strategy, len(eligible), len(acceptable), discriminating))
                    ok = (chosen in acceptable) if acceptable else chosen is None
                    if not ok:
                        kind = 'not-eligible' if chosen is not None and chosen not in eligible else \
                            ('missed' if chosen is None else 'suboptimal')
                        violations.append({'key': f'C14/{strategy}:{kind}',
                                           'msg': f'strategy {strategy} chose {chosen}; acceptable={sorted(acceptable)} '
                                                  f'eligible={eligible} candidates={candidates} running='
                                                  f'{sorted(running)} inst_load={inst_load} node_of={node_of} '
                                                  f'requests={reqs} load={load} local={local}'})
                # -- whole-application placements through the real Starter
                for _ in range(3):
                    distribution = rng.choice(['ALL_INSTANCES', 'SINGLE_INSTANCE', 'SINGLE_NODE'])
                    strategy = rng.choice(STRATEGIES)
                    rules = ApplicationRules(sv)
                    rules.managed = True
                    rules.start_sequence = 1
                    rules.distribution = DistributionRules[distribution]
                    app_ids = rng.sample(idents, rng.randint(1, len(idents))) if rng.random() < 0.6 else ['*']
                    rules.identifiers = list(app_ids)
                    app = ApplicationStatus('app', rules, sv)
                    ctx.applications['app'] = app
                    procs = {}
                    for p in range(rng.randint(1, 4)):
                        prules = ProcessRules(sv)
                        prules.start_sequence = 1
                        prules.expected_load = rng.choice([0, 5, 10, 20, 30])
                        prules.identifiers = rng.sample(idents, rng.randint(1, len(idents))) \
                            if rng.random() < 0.5 else ['*']
                        proc = ProcessStatus('app', f'p{p}', prules, sv)
                        known = [i for i in idents if rng.random() < 0.85] or [local]
                        # stopped-like in any way: never started, exited, fatal (a restart after a crash or a loss)
                        first_state = rng.choice([0, 0, 100, 200])
                        for ident in known:
                            proc.add_info(ident, payload(f'p{p}', 'app', first_state, 100.0 + rnd))
                        app.add_process(proc)
                        procs[f'app:p{p}'] = (proc, prules.expected_load, list(prules.identifiers), known)
                    # one more process, outside the start sequence, without load, with its own identifiers rule: it
                    # is requested while the application is being started (it joins the job in progress)
                    xrules = ProcessRules(sv)
                    xrules.start_sequence = 0
                    xrules.expected_load = 0
                    xrules.identifiers = rng.sample(idents, rng.randint(1, len(idents))) if rng.random() < 0.7 else ['*']
                    procx = ProcessStatus('app', 'px', xrules, sv)
                    known_x = list(idents)   # known everywhere: the choices made for the application are unchanged
                    for ident in known_x:
                        procx.add_info(ident, payload('px', 'app', 0, 100.0 + rnd))
                    app.add_process(procx)
                    app.update_sequences()
                    app.update()
                    del requests[:]
                    sv.starter.start_application(StartingStrategies[strategy], app)
                    targets = dict((ns, ident) for ident, ns in requests)
                    added_problem = None
                    if distribution != 'ALL_INSTANCES' and targets and sv.starter.in_progress():
                        n0 = len(requests)
                        sv.starter.start_process(StartingStrategies[strategy], procx)
                        added = [ident for ident, ns in requests[n0:] if ns == 'app:px']
                        if not added:
                            # not requested yet (it waits for the sequence group in progress): the instance it has
                            # been assigned to is read on its command in the job of the application
                            job = sv.starter.current_jobs.get('app')
                            if job is not None:
                                added = [c.identifier for c in job.current_jobs + sum(job.planned_jobs.values(), [])
                                         if c.process is procx]
                        app_ok = idents if '*' in app_ids else app_ids
                        if distribution == 'SINGLE_INSTANCE':
                            place = set(targets.values())
                        else:
                            nodes_used = {node_of[i] for i in targets.values()}
                            place = {i for i in idents if node_of[i] in nodes_used and i in app_ok and i in running}
                        cands_x = sorted(i for i in place if i in known_x)
                        if cands_x and len(set(node_of[i] for i in targets.values())) == 1:
                            counters['processes_added_to_a_job_in_progress'] = \
                                counters.get('processes_added_to_a_job_in_progress', 0) + 1
                            if '*' not in xrules.identifiers and not set(xrules.identifiers) & set(cands_x):
                                counters['added_processes_whose_own_rule_excludes_the_place'] = \
                                    counters.get('added_processes_whose_own_rule_excludes_the_place', 0) + 1
                            if len(added) != 1 or added[0] not in cands_x:
                                added_problem = (f'{distribution} process app:px (no load, known on {sorted(known_x)}, own '
                                                 f'identifiers rule {xrules.identifiers}) requested while the application '
                                                 f'is being started on {sorted(set(targets.values()))}: requests {added}, '
                                                 f'expected one request among {cands_x} (the application rule '
                                                 f'{app_ids} replaces the program rule)')
                    sv.starter.abort()
                    sv.state_modes.starting_jobs = False
                    counters['application_runs'] += 1
                    counters['requests_checked'] += len(requests)
                    app_allowed = idents if '*' in app_ids else app_ids
                    total_load = sum(v[1] for v in procs.values())
                    problems = []
                    for ns, ident in targets.items():
                        proc, pload, pids, known = procs[ns]
                        if ident not in running:
                            problems.append(f'{ns} sent to {ident} which is not RUNNING')
                        if ident not in known:
                            problems.append(f'{ns} sent to {ident} whose Supervisor does not know it')
                    # loads include the starts already requested: nothing has been acknowledged in this run, so the load
                    # of every request counts on the node of its target
                    asked = {}
                    for ns, ident in targets.items():
                        asked[node_of[ident]] = asked.get(node_of[ident], 0) + procs[ns][1]
                    counters['node_capacity_checks'] = counters.get('node_capacity_checks', 0) + len(asked)
                    for node, load_asked in asked.items():
                        if node_load[node] + load_asked > 100:
                            problems.append(f'node overloaded ({node}) by the requests of this run: {node_load[node]} '
                                            f'running + {load_asked} requested > 100')
                    if distribution == 'ALL_INSTANCES':
                        for ns, ident in targets.items():
                            proc, pload, pids, known = procs[ns]
                            if '*' not in pids and ident not in pids:
                                problems.append(f'{ns} sent to {ident}, not allowed by the program rule {pids}')
                    else:
                        for ns, ident in targets.items():
                            if ident not in app_allowed:
                                problems.append(f'{ns} sent to {ident}, not allowed by the application rule '
                                                f'{app_allowed}')
                        if distribution == 'SINGLE_INSTANCE':
                            counters['single_instance_runs'] += 1
                            if len(set(targets.values())) > 1:
                                problems.append(f'SINGLE_INSTANCE spread over {sorted(set(targets.values()))}')
                            for ident in set(targets.values()):
                                if node_load[node_of[ident]] + total_load > 100:
                                    problems.append(f'SINGLE_INSTANCE target {ident} cannot carry the whole '
                                                    f'sequence load {total_load} (node load '
                                                    f'{node_load[node_of[ident]]})')
                            # optimality of the single instance under the strategy
                            cands = [i for i in app_allowed if all(i in v[3] for v in procs.values())]
                            acceptable, eligible, _ = ref_acceptable(strategy, cands, running, node_of, inst_load,
                                                                     node_load, {}, total_load, local)
                            for ident in set(targets.values()):
                                if ident not in acceptable:
                                    problems.append(f'SINGLE_INSTANCE chose {ident}; acceptable under {strategy}: '
                                                    f'{sorted(acceptable)}')
                            # missed placement: an allowed RUNNING instance knowing every process had room
                            if not targets:
                                fits = [i for i in app_allowed if i in running
                                        and all(i in v[3] for v in procs.values())
                                        and node_load[node_of[i]] + total_load <= 100]
                                if strategy == 'LOCAL':
                                    fits = [i for i in fits if i == local]
                                counters['no_resource_checked'] += 1
                                if fits:
                                    problems.append(f'nothing started although {fits} can carry the application')
                        else:
                            counters['single_node_runs'] += 1
                            if len({node_of[i] for i in targets.values()}) > 1:
                                problems.append('SINGLE_NODE spread over nodes '
                                                f'{sorted({node_of[i] for i in targets.values()})}')
                            for node in {node_of[i] for i in targets.values()}:
                                if node_load[node] + total_load > 100:
                                    problems.append(f'SINGLE_NODE node {node} cannot carry the whole sequence '
                                                    f'load {total_load} (node load {node_load[node]})')
                            # the node and, inside it, the instance of each process follow the strategy among the
                            # allowed instances in declared order (application rule, or the Supvisors list for '*')
                            feasible = []
                            for node in sorted(set(node_of.values())):
                                on_node = [i for i in app_allowed if node_of[i] == node]
                                # (app:px, outside the sequence, is a process of the application known everywhere)
                                if all(any(i in v[3] for i in on_node) for v in procs.values()):
                                    feasible.extend(i for i in on_node
                                                    if i in known_x or any(i in v[3] for v in procs.values()))
                            cands = [i for i in app_allowed if i in feasible]
                            acceptable, eligible, _ = ref_acceptable(strategy, cands, running, node_of, inst_load,
                                                                     node_load, {}, total_load, local)
                            chosen_nodes = {node_of[i] for i in targets.values()}
                            if targets:
                                counters['single_node_choices_checked'] = \
                                    counters.get('single_node_choices_checked', 0) + 1
                                if not chosen_nodes <= {node_of[i] for i in acceptable}:
                                    problems.append(f'SINGLE_NODE chose node {sorted(chosen_nodes)}; acceptable under '
                                                    f'{strategy}: {sorted({node_of[i] for i in acceptable})}')
                                else:
                                    for ns, ident in targets.items():
                                        pcands = [i for i in cands if node_of[i] in chosen_nodes and i in procs[ns][3]]
                                        pacc, _, disc = ref_acceptable(strategy, pcands, running, node_of, inst_load,
                                                                       node_load, {}, procs[ns][1], local)
                                        counters['single_node_instance_choices_checked'] = \
                                            counters.get('single_node_instance_choices_checked', 0) + 1
                                        if disc:
                                            counters['single_node_instance_choices_nontrivial'] = \
                                                counters.get('single_node_instance_choices_nontrivial', 0) + 1
                                        if ident not in pacc:
                                            problems.append(f'SINGLE_NODE sent {ns} to {ident}; acceptable on that '
                                                            f'node under {strategy}: {sorted(pacc)} (candidates in '
                                                            f'declared order {pcands})')
                    seen.add((strategy, distribution, len(targets), len(procs)))
                    if sample is None and distribution != 'ALL_INSTANCES' and len(targets) > 1:
                        sample = {'distribution': distribution, 'strategy': strategy, 'targets': targets,
                                  'application_identifiers': app_ids, 'inst_load': inst_load,
                                  'node_of': node_of, 'running': sorted(running),
                                  'process_loads': {ns: v[1] for ns, v in procs.items()}}
                    if added_problem:
                        violations.append({'key': f'C14/{distribution}:added-process', 'msg': added_problem +
                                           f' - strategy={strategy} running={sorted(running)} inst_load={inst_load} '
                                           f'node_of={node_of}'})
                    if problems:
                        violations.append({'key': f'C14/{distribution}:' + problems[0].split(' ')[1][:20],
                                           'msg': '; '.join(problems[:4]) + f' - strategy={strategy} app_ids={app_ids} '
                                                  f'running={sorted(running)} inst_load={inst_load} node_of={node_of} '
                                                  f'procs={ {ns: v[1:] for ns, v in procs.items()} }'})
                    del ctx.applications['app']
                if len(violations) > 20:
                    break
    finally:
        single.close()
    counters['distinct_tuples'] = len(seen)
    uniq = {}
    for v in violations:
        uniq.setdefault(v['key'], v)
    return {'violations': list(uniq.values()), 'counters': counters, 'signature': f"{case['seed']}:{len(seen)}",
            'sample': sample}
