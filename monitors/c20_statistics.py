""" C20 - statistics histories stay bounded, aligned and sane.

Invariant-at-a-hook monitor: the real HostStatisticsCompiler / ProcStatisticsCompiler are fed with generated
sample streams and the whole structure is walked after every push.
"""
import math
import random

from vsim.single import Single

PROPERTY = 'C20'
LEVEL = 'exploration'
RULE = ('generated host and process sample streams (up to 400 samples): interfaces / disks / partitions appearing '
        'and vanishing, counters wrapping, timestamps with jitter (also equal and backward steps), pid changes, '
        'pid 0, identifiers never seen before, 1-3 periods, depth 10-50, constant core count per identifier; '
        'after EVERY push: series length <= stats_histo, value series as long as their time series, a result only '
        'when >= period elapsed since the previous reference, CPU in [0,100] per core for non-decreasing jiffies, '
        'finite non-negative I/O rates, history of a stopped process dropped; non-trivial = stream with at least '
        'one interface churn, wrap or pid change and more samples than the depth; distinct = distinct '
        '(periods, depth, churn pattern) tuples')
ASSUMPTIONS = ['the number of cores reported by one identifier does not change during a stream',
               'jiffies are non-decreasing and a process cannot use more than one core-second per second and core']
FLOORS = {'quick': {'pushes_checked': 150000, 'results_checked': 30000, 'interface_churn': 3000,
                    'counter_wraps': 1000, 'pid_changes': 1000, 'pid_zero': 1000, 'truncations': 10000},
          'thorough': {'pushes_checked': 4000000, 'results_checked': 800000, 'interface_churn': 80000,
                       'counter_wraps': 25000, 'pid_changes': 25000, 'pid_zero': 25000, 'truncations': 250000}}
STREAMS = {'quick': 30, 'thorough': 800}
CASES = {'quick': 32, 'thorough': 64}


def plan(tier, seed):
    return [{'seed': seed * 32452843 + i, 'streams': STREAMS[tier]} for i in range(CASES[tier])]


class Opts:
    pass


def run_case(case):
    from supvisors.statscompiler import HostStatisticsCompiler, ProcStatisticsCompiler
    rng = random.Random(case['seed'])
    single = Single(n=2, seed=case['seed'])
    counters = {'pushes_checked': 0, 'results_checked': 0, 'interface_churn': 0, 'counter_wraps': 0,
                'pid_changes': 0, 'pid_zero': 0, 'truncations': 0, 'streams': 0, 'nontrivial_streams': 0}
    violations = []
    seen = set()
    sample = None

    def bad(key, msg):
        if len(violations) < 10:
            violations.append({'key': key, 'msg': msg})

    try:
        sv = single.supvisors
        with single.ctx():
            for s in range(case['streams']):
                periods = sorted(rng.sample([1.0, 2.5, 5.0, 10.0, 17.0, 60.0], rng.randint(1, 3)))
                depth = rng.randint(10, 50)
                sv.options.stats_periods = periods
                sv.options.stats_histo = depth
                host = HostStatisticsCompiler(sv)
                procc = ProcStatisticsCompiler(sv.options, sv.logger)
                idents = [f'10.1.{rng.randint(0, 3)}.{k}:60001' for k in range(rng.randint(1, 3))]
                cores = {i: rng.randint(1, 4) for i in idents}
                state = {}
                for i in idents:
                    n_cpu = 1 if cores[i] == 1 and rng.random() < 0.5 else cores[i] + 1
                    state[i] = {'now': rng.uniform(0, 1e5), 'cpu': [[rng.uniform(0, 1e4), rng.uniform(0, 1e4)]
                                                                    for _ in range(n_cpu)],
                                'net': {f'eth{k}': [rng.randint(0, 10 ** 6), rng.randint(0, 10 ** 6)]
                                        for k in range(rng.randint(0, 3))},
                                'disk': {f'sd{k}': [rng.randint(0, 10 ** 6), rng.randint(0, 10 ** 6)]
                                         for k in range(rng.randint(0, 2))},
                                'usage': {f'/p{k}': rng.uniform(0, 100) for k in range(rng.randint(0, 3))},
                                'refs': {p: None for p in periods},
                                'procs': {}}
                length = rng.randint(20, 400)
                churn = wraps = pidc = 0
                trace = []
                for step in range(length):
                    ident = rng.choice(idents)
                    st = state[ident]
                    dt = rng.choice([0.0, 0.3, 1.0, 1.0, 2.0, 5.0, 5.0, 12.0, 61.0, -0.5])
                    st['now'] += dt
                    if rng.random() < 0.6:
                        # ---- host sample
                        for jif in st['cpu']:
                            if dt > 0:
                                work = rng.uniform(0, dt)
                                jif[0] += work
                                jif[1] += dt - work
                        for table, prefix, width in ((st['net'], 'eth', 2), (st['disk'], 'sd', 2)):
                            for key in list(table):
                                if rng.random() < 0.03:
                                    del table[key]
                                    churn += 1
                                elif rng.random() < 0.03:
                                    table[key] = [rng.randint(0, 100), rng.randint(0, 100)]   # counter wrap
                                    wraps += 1
                                else:
                                    table[key][0] += rng.randint(0, 10 ** 5)
                                    table[key][1] += rng.randint(0, 10 ** 5)
                            if rng.random() < 0.04:
                                table[f'{prefix}{rng.randint(0, 5)}'] = [rng.randint(0, 10 ** 6),
                                                                         rng.randint(0, 10 ** 6)]
                                churn += 1
                        for key in list(st['usage']):
                            if rng.random() < 0.03:
                                del st['usage'][key]
                                churn += 1
                            else:
                                st['usage'][key] = rng.uniform(0, 100)
                        if rng.random() < 0.04:
                            st['usage'][f'/p{rng.randint(0, 5)}'] = rng.uniform(0, 100)
                            churn += 1
                        stats = {'now': st['now'], 'cpu': [tuple(j) for j in st['cpu']],
                                 'mem': rng.uniform(0, 100),
                                 'net_io': {k: tuple(v) for k, v in st['net'].items()},
                                 'disk_io': {k: tuple(v) for k, v in st['disk'].items()},
                                 'disk_usage': dict(st['usage'])}
                        if len(trace) < 12:
                            trace.append(('host', ident, round(st['now'], 2), sorted(stats['net_io']),
                                          sorted(stats['disk_usage'])))
                        try:
                            results = host.push_statistics(ident, stats)
                        except Exception as exc:
                            import traceback
                            bad(f'C20/host-exception:{type(exc).__name__}',
                                f'push_statistics raised {traceback.format_exc()[-700:]} after {trace}')
                            break
                        counters['pushes_checked'] += 1
                        # period gate against my own shadow of the references
                        produced = {r['target_period'] for r in results}
                        for p in periods:
                            ref = st['refs'][p]
                            if ref is None:
                                st['refs'][p] = st['now']
                                if p in produced:
                                    bad('C20/result-on-first-sample', f'period {p} produced a point on first sample')
                            elif st['now'] - ref >= p:
                                st['refs'][p] = st['now']
                                if p not in produced:
                                    bad('C20/period-gate:missing', f'{st["now"] - ref}s elapsed, period {p}: no point')
                            elif p in produced:
                                bad('C20/period-gate:early', f'point produced after {st["now"] - ref}s < period {p}')
                        for r in results:
                            counters['results_checked'] += 1
                            for value in r['cpu']:
                                if not (0.0 <= value <= 100.0 + 1e-9) or not math.isfinite(value):
                                    bad('C20/cpu-range', f'host cpu {value} outside [0,100]')
                            for table in (r['net_io'], r['disk_io']):
                                for values in table.values():
                                    for value in values:
                                        if not math.isfinite(value) or value < 0:
                                            bad('C20/io-rate', f'I/O rate {value}')
                        # structural walk
                        for hid, per_period in host.instance_map.items():
                            for p, inst in per_period.items():
                                n = len(inst.times)
                                if n > depth:
                                    bad('C20/depth:times', f'{n} time points > stats_histo {depth}')
                                if n == depth:
                                    counters['truncations'] += 1
                                if len(inst.mem) != n:
                                    bad('C20/align:mem', f'mem {len(inst.mem)} vs times {n}')
                                for lst in inst.cpu:
                                    if len(lst) != n:
                                        bad('C20/align:cpu', f'cpu {len(lst)} vs times {n}')
                                for name, table in (('net_io', inst.net_io), ('disk_io', inst.disk_io),
                                                    ('disk_usage', inst.disk_usage)):
                                    for key, (uptimes, values) in table.items():
                                        if len(uptimes) > depth:
                                            bad(f'C20/depth:{name}', f'{name}[{key}] {len(uptimes)} > {depth}')
                                        for lst in values:
                                            if len(lst) != len(uptimes):
                                                bad(f'C20/align:{name}', f'{name}[{key}] values {len(lst)} vs times '
                                                    f'{len(uptimes)} after {trace}')
                                            if len(lst) > depth:
                                                bad(f'C20/depth:{name}', f'{name}[{key}] {len(lst)} > {depth}')
                    else:
                        # ---- process sample
                        namespec = f'app:p{rng.randint(0, 2)}'
                        proc = st['procs'].get(namespec)
                        r = rng.random()
                        if proc is None or r < 0.05:
                            old_pid = proc['pid'] if proc is not None else None
                            if proc is not None:
                                pidc += 1
                            proc = st['procs'][namespec] = {'pid': rng.randint(2, 30000), 'work': 0.0, 'refs': {}}
                            if proc['pid'] == old_pid:
                                # the same pid twice in a row would be the same process for any observer
                                proc['pid'] = old_pid + 1
                        if r > 0.93:
                            stats = {'namespec': namespec, 'pid': 0, 'now': st['now']}
                            st['procs'].pop(namespec, None)
                            counters['pid_zero'] += 1
                        else:
                            # the process cannot have worked more than the time really elapsed on every core
                            elapsed = st['now'] - proc.get('high', st['now'])
                            if elapsed > 0:
                                proc['work'] += rng.uniform(0, elapsed) * cores[ident]
                            proc['high'] = max(st['now'], proc.get('high', st['now']))
                            stats = {'namespec': namespec, 'pid': proc['pid'], 'now': st['now'],
                                     'proc_work': proc['work'], 'proc_memory': rng.uniform(0, 100)}
                            if rng.random() < 0.3:
                                stats['nb_cores'] = cores[ident]
                        try:
                            results = procc.push_statistics(ident, stats)
                        except Exception as exc:
                            import traceback
                            bad(f'C20/proc-exception:{type(exc).__name__}',
                                f'push_statistics raised {traceback.format_exc()[-700:]}')
                            break
                        counters['pushes_checked'] += 1
                        if stats['pid'] == 0:
                            holder = procc.holder_map.get(namespec)
                            if holder and ident in holder.instance_map:
                                bad('C20/stopped-not-dropped', f'history of {namespec} on {ident} kept after pid 0')
                        else:
                            produced = {r_['target_period'] for r_ in results}
                            for p in periods:
                                ref = proc['refs'].get(p)
                                if ref is None:
                                    proc['refs'][p] = st['now']
                                    if p in produced:
                                        bad('C20/result-on-first-sample', 'process point on first sample')
                                elif st['now'] - ref >= p:
                                    proc['refs'][p] = st['now']
                                    if p not in produced:
                                        bad('C20/period-gate:missing', f'process: {st["now"] - ref}s, period {p}')
                                elif p in produced:
                                    bad('C20/period-gate:early', f'process point after {st["now"] - ref}s < {p}')
                            for r_ in results:
                                counters['results_checked'] += 1
                                if not math.isfinite(r_['cpu']) or r_['cpu'] < -1e-9 or \
                                        r_['cpu'] > 100.0 * cores[ident] + 1e-6:
                                    bad('C20/cpu-range', f'process cpu {r_["cpu"]} with {cores[ident]} cores')
                        for holder in procc.holder_map.values():
                            for hid, (pid, per_period) in holder.instance_map.items():
                                for p, inst in per_period.items():
                                    n = len(inst.times)
                                    if n > depth or len(inst.cpu) != n or len(inst.mem) != n:
                                        bad('C20/align:process', f'times {n} cpu {len(inst.cpu)} mem {len(inst.mem)} '
                                            f'depth {depth}')
                                    if n == depth:
                                        counters['truncations'] += 1
                counters['streams'] += 1
                counters['interface_churn'] += churn
                counters['counter_wraps'] += wraps
                counters['pid_changes'] += pidc
                if (churn or wraps or pidc) and length > depth:
                    counters['nontrivial_streams'] += 1
                seen.add((tuple(periods), depth, churn > 0, wraps > 0, pidc > 0))
                if sample is None and churn and wraps:
                    sample = {'periods': periods, 'depth': depth, 'length': length, 'first_samples': trace}
                if violations:
                    break
    finally:
        single.close()
    uniq = {}
    for v in violations:
        uniq.setdefault(v['key'], v)
    return {'violations': list(uniq.values()), 'counters': counters, 'signature': f"{case['seed']}:{len(seen)}",
            'sample': sample}
