""" C04 - start requests only go to eligible instances with spare load. """
from monitors.lib_apps import Tracker, EligibilityMonitor
from workloads.apps import Run

PROPERTY = 'C04'
LEVEL = 'exploration'
RULE = ('generated clusters with several instances per node, instances lacking or disabling programs, identifiers '
        'rules at program and application level, three distributions, expected_loading up to 60 so that node loads '
        'come near the cap, concurrent application starts (equal start_sequence, user requests on several '
        'instances), instance losses; oracle at EVERY start request emission: target RUNNING in the requester view '
        '(API), program known and enabled on the target (truth), identifiers rule (rules model), independent node '
        'load = running (requester view) + already requested + program load <= 100, not running / not already '
        'requested; "No resource available" cross-checked in automatic plans; non-trivial = run with a request '
        'near the cap, with pending load or with a restricted rule; distinct = distinct (topology, strategies, '
        'distributions, actions) tuples')
ASSUMPTIONS = ['the independent load counts every unacknowledged start of the requester on the node once; it is a '
               'lower bound of what the statement requires']
FLOORS = {'quick': {'requests_checked': 1500, 'requests_near_cap': 100, 'requests_with_pending_load': 100,
                    'programs_disabled_on_a_peer_seen_checked': 10, 'processes_added_to_a_non_distributed_job': 50},
          'thorough': {'requests_checked': 40000, 'requests_near_cap': 2500, 'requests_with_pending_load': 2500,
                       'programs_disabled_on_a_peer_seen_checked': 150,
                       'processes_added_to_a_non_distributed_job': 800}}
COUNT = {'quick': 640, 'thorough': 12000}
BUDGET_S = {'quick': 55, 'thorough': 540}

KNOBS = {'n_min': 2, 'n_max': 4, 'max_nodes': 2,
         'apps': {'n_apps': (2, 4), 'n_progs': (1, 4), 'seq_max': 2, 'loads': (10, 60), 'startsecs': (0, 5),
                  'per_instance_diff': 0.2, 'managed_p': 0.9, 'identifiers_p': 0.4,
                  # Supervisor's own autorestart competes with the requests of Supvisors (events are not correlated
                  # with requests): kept out of this check so that "already requested" is unambiguous
                  'autorestart': ('false',)},
         'behaviours': ['normal'] * 8 + ['slow_stop', 'crash_early', 'exit_unexpected', 'backoff_then_run'],
         'actions': ['start_application', 'start_application', 'restart_application', 'start_process',
                     'start_process', 'stop_application', 'restart_sequence', 'kill_process', 'crash', 'wait'],
         'disable_p': 0.2, 'n_actions': [1, 2, 3, 4, 6, 8]}


# an additional family: a program is disabled on an instance X (in OPERATION) while an instance Y that has just
# restarted still has X in CHECKED; once everything has settled Y is asked to start that program
JOIN_KNOBS = {'n_min': 2, 'n_max': 3, 'max_nodes': 2,
              'apps': {'n_apps': (1, 2), 'n_progs': (1, 3), 'seq_max': 2, 'loads': (5, 20), 'startsecs': (0, 2),
                       'per_instance_diff': 0.0, 'managed_p': 1.0, 'identifiers_p': 0.0, 'autorestart': ('false',)},
              'behaviours': ['normal'], 'actions': ['disable_during_join'], 'n_actions': [1], 'gaps': [0.0],
              'after_settling': ['start_disabled_program'], 'disable_p': 0.0, 'early_p': 0.0}
JOIN_COUNT = {'quick': 160, 'thorough': 2500}


# and a family where one more process is requested for a non-distributed application that is being started on the
# instance / node chosen for its whole sequence (loads reserved for the later sequence levels, program identifiers
# rule replaced by the application's)
ADDED_KNOBS = {'n_min': 2, 'n_max': 4, 'max_nodes': 2,
               'apps': {'n_apps': (1, 3), 'n_progs': (2, 4), 'seq_max': 3, 'loads': (20, 45), 'startsecs': (2, 8),
                        'per_instance_diff': 0.0, 'managed_p': 1.0, 'identifiers_p': 0.5, 'autorestart': ('false',),
                        'distribution': None, 'restricted_p': 0.8},
               'behaviours': ['normal'], 'actions': ['start_application_then_process'], 'n_actions': [1, 2, 3],
               'gaps': [12.0, 30.0], 'disable_p': 0.0, 'early_p': 0.0}
ADDED_COUNT = {'quick': 160, 'thorough': 3000}


# the general family again with slow handshakes (each XML-RPC of a handshake takes 0 - 3 s, L3 engine) and instance
# restarts: requests are emitted and answered while peers are being checked again
SLOW_KNOBS = dict(KNOBS, handshake_skew=[0.0, 0.3, 1.0, 2.0, 3.0], actions=KNOBS['actions'] + ['restart', 'restart'])


# and the general family with programs disabled / enabled at run time on random instances (supvisors.disable / enable)
DISABLE_KNOBS = dict(KNOBS, actions=KNOBS['actions'] + ['disable', 'disable', 'enable'])


def plan(tier, seed):
    return [{'seed': seed * 1000003 + i} for i in range(COUNT[tier])] + \
        [{'seed': seed * 1000003 + 800000 + i, 'family': 'disabled-during-join'} for i in range(JOIN_COUNT[tier])] + \
        [{'seed': seed * 1000003 + 700000 + i, 'family': 'process-added-to-a-non-distributed-job'}
         for i in range(ADDED_COUNT[tier])] + \
        [{'seed': seed * 1000003 + 900000 + i, 'family': 'slow-handshake'} for i in range(COUNT[tier] // 8)] + \
        [{'seed': seed * 1000003 + 600000 + i, 'family': 'runtime-disable'} for i in range(COUNT[tier] // 4)]


def run_case(case):
    tracker = Tracker()
    mon = EligibilityMonitor(tracker)
    run = Run(case, {'disabled-during-join': JOIN_KNOBS, 'process-added-to-a-non-distributed-job': ADDED_KNOBS,
                     'slow-handshake': SLOW_KNOBS, 'runtime-disable': DISABLE_KNOBS}.get(
        case.get('family'), KNOBS), [tracker, mon])
    violations = run.execute()
    nontrivial = mon.counters.get('requests_near_cap', 0) + mon.counters.get('requests_with_pending_load', 0) > 0
    return {'violations': violations, 'counters': run.counters,
            'signature': run.shape() if nontrivial else None, 'sample': run.describe()}
