""" Regenerates the tables of DESIGN.md 11.2 (fix commits of /repo) and 11.3 (open known findings) from git and
known_findings.json. Run after a new fix: or finding. """
import json
import os
import subprocess

HERE = os.path.dirname(os.path.abspath(__file__))
EXTRA = {'78789ee': ('C10', 'a pending restart (process_start_requests / application_start_requests) was triggered by `after()` '
                            'while the completed job was still in `current_jobs`: the new plan was merged into the dying job '
                            'and lost, the restart never happened and the jobs flag never fell'),
         'f910468': ('C10 / C07', 'a process STOPPING on an instance that is lost stayed STOPPING for ever (only the running '
                                  'states were invalidated): stop jobs never ended and the process kept listing the lost '
                                  'instance'),
         'ccd8cec': ('C01 / C08', 'the STATE notification of a handshake (older snapshot of the state and modes of the peer) '
                                  'delivered after a newer STATE publication overwrote it: stale Master / state seen until '
                                  'the next publication')}


def main():
    findings = json.load(open(os.path.join(HERE, 'known_findings.json')))['findings']
    log = subprocess.run(['git', '-C', '/repo', 'log', '--reverse', '--format=%h %s'], capture_output=True,
                         text=True).stdout.splitlines()
    fixes = [line.split(' ', 1) for line in log if ' fix:' in line]
    rows = ['| commit | property | what failed (as found by the check) |', '|---|---|---|']
    for commit, subject in fixes:
        prop, what = EXTRA.get(commit, ('', ''))
        for f in findings:
            if f['status'] == 'fixed' and commit in f['what'] and not prop:
                prop, what = f['property'], ' '.join(f['what'].split()[3:])
        rows.append(f'| {commit} | {prop or "-"} | {(what or subject)[:330]} |')
    out = []
    seen = set()
    for f in findings:
        if f['status'] != 'open' or f['what'] in seen:
            continue
        seen.add(f['what'])
        keys = [g['key'] for g in findings if g['status'] == 'open' and g['what'] == f['what']]
        out.append(f"* **{f['property']}** `{'`, `'.join(keys)}` - {f['what']}")
    path = os.path.join(HERE, 'DESIGN.md')
    text = open(path).read()
    i = text.index('| commit | property | what failed')
    j = text.index('### 11.3 Genuine defects recorded as known findings')
    text = text[:i] + '\n'.join(rows) + '\n\n' + text[j:]
    i = text.index('* **', text.index('### 11.3 Genuine defects recorded as known findings'))
    j = text.index('### 11.4 Corrections of the machinery')
    text = text[:i] + '\n'.join(out) + '\n\n' + text[j:]
    open(path, 'w').write(text)
    print(len(fixes), 'fixes,', len(out), 'open findings')


if __name__ == '__main__':
    main()
