""" Debug helper: ./tools_timeline.py <module> <seed> [level] [family]  - prints the log records of a case. """
import os, sys
sys.path.insert(0, os.path.dirname(os.path.abspath(__file__)))
os.environ.setdefault('VSIM_ECHO', sys.argv[3] if len(sys.argv) > 3 else '30')
import importlib
m = importlib.import_module(sys.argv[1])
case = {'seed': int(sys.argv[2])}
if len(sys.argv) > 4:
    case['family'] = sys.argv[4]
res = m.run_case(case)
print([v['key'] for v in res['violations']])
for v in res['violations'][:3]:
    print(v['msg'][:1500])
